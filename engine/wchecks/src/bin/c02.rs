//! C02 — Wallet database writes are all-or-nothing and never observed half-applied.
//!
//! Fault enumeration over generated (state, operation) pairs on FILE-backed wallets whose SQLite
//! connection the harness owns:
//!  * reference run: counts VM steps S and commits C (progress handler / commit hook);
//!  * for enumerated positions k in 1..=S the k-th VM step is interrupted (SQLITE_INTERRUPT, which
//!    surfaces through the wallet's `?` chain like an I/O error): the operation must fail and the
//!    canonical dump of ALL tables must equal the pre-state, or succeed with exactly the reference
//!    state; a retry without fault must reproduce the reference state (modulo account UUIDs);
//!  * the commit itself is vetoed (failure exactly at the commit boundary);
//!  * at the commit hook the database file and its journal are copied ("crash before the commit is
//!    durable") and re-opened: SQLite recovery must yield the pre-state;
//!  * at sampled writer steps a second connection dumps all tables inside one read transaction and
//!    must see the pre-state;
//!  * reader side (WAL): while get_wallet_summary runs on one connection, the whole write
//!    operation commits on another at a sampled reader step; the summary must equal the summary
//!    of the pre-state or of the post-state, never a mixture.
//!
//! Pool-migration store (`c02_migration/mod.rs`): the same oracles over the operations of
//! `pool_migration::orchard_ironwood::PoolMigrations` (persist / replace / per-transaction update /
//! cancel / proved transaction / broadcast-failure report / mined promotion / one `advance_migration`
//! step) and over the wallet's own truncations, rewinds, scans and account deletions on states that
//! hold 0-2 persisted migrations; and the reader side for the migration oracles
//! (`check_step_satisfiability`, `mined_height`, the state reads inside a caller-opened transaction).

#[path = "c02_migration/mod.rs"]
mod migration;

use std::collections::BTreeMap;
use std::path::{Path, PathBuf};
use std::sync::atomic::{AtomicBool, AtomicU64, Ordering};
use std::sync::{Arc, Mutex};

use chainsim::*;
use nonempty::NonEmpty;
use proptest::prelude::*;
use rand_chacha::ChaChaRng;
use rand_core::SeedableRng;
use rusqlite::Connection;
use secrecy::SecretVec;
use vcore::{catch, vensure, vfail, CaseResult, Ctx, Fail, Obs};
use zcash_client_backend::data_api::{
    chain::scan_cached_blocks,
    locking::LockOwner,
    scanning::ScanPriority,
    wallet::ConfirmationsPolicy,
    AccountBirthday, AccountPurpose, OutputLockStore, TransactionStatus, WalletRead, WalletWrite,
};
use zcash_client_backend::wallet::OutputRef;
use zcash_client_sqlite::{util::testing::FixedClock, AccountUuid, WalletDb};
use zcash_protocol::{consensus::BlockHeight, local_consensus::LocalNetwork, PoolType, ShieldedPool, TxId};

use migration::{MigEnv, MigOp, MigSpec};

/// The wallet API over a connection the harness owns (so that the pool-migration store can be opened over the
/// very same hooked connection, as an application does).
type RawDb<'a> = WalletDb<&'a mut Connection, LocalNetwork, FixedClock, ChaChaRng>;

fn wdb<'a>(conn: &'a mut Connection, world: &World) -> RawDb<'a> {
    let mut db = WalletDb::from_connection(conn, world.net, migration::clock(), ChaChaRng::from_seed([9; 32]));
    if let Some(n) = world.spec.retention_interval {
        db.set_anchor_retention_interval(zcash_client_backend::data_api::anchor_retention::AnchorRetentionInterval::custom(std::num::NonZeroU32::new(n.max(1)).unwrap()));
    }
    db
}

#[derive(Clone, Debug)]
enum WOp {
    Scan { sel: u32, len: u8 },
    UpdateTip { extra: u8 },
    Truncate { depth: u8 },
    CreateAccount { seed: u8, birthday_back: u8 },
    ImportUfvk { key: u8, birthday_back: u8 },
    DeleteAccount { idx: u8 },
    Lock { first: u32, n: u8, owner: u8, for_blocks: u8 },
    Unlock { which: u32, owner: u8 },
    ClearLocks { idx: u8 },
    QueueRescan { sel: u32, len: u8, prio: u8 },
    SetTxStatus { which: u32, status: u8 },
    PruneQueue { below_back: u8, retain: u8 },
    /// truncate_to_chain_state(true chain state at (max scanned or tip) - depth)
    TruncateToChainState { depth: u8 },
    /// rewind_to_chain_state(true chain state at (max scanned or tip) - depth, reset birthdays of `reset` accounts)
    RewindToChainState { depth: u8, reset: u8 },
    /// store_decrypted_tx of a transparent-only transaction paying `n_out` outputs to the wallet's own
    /// transparent addresses (or to a foreign one), mined at the tip or unmined
    StoreDecrypted { mined: bool, n_out: u8, to_wallet: bool, salt: u8 },
    /// store_transactions_to_be_sent of a transparent-only transaction funded by an account
    StoreSent { acct: u8, n_out: u8, salt: u8 },
    /// an operation on the SQLite pool-migration store
    Mig(MigOp),
}

fn arb_wop() -> impl Strategy<Value = WOp> {
    prop_oneof![
        8 => (any::<u32>(), 1u8..40).prop_map(|(sel, len)| WOp::Scan { sel, len }),
        2 => (0u8..6).prop_map(|extra| WOp::UpdateTip { extra }),
        3 => (0u8..8).prop_map(|depth| WOp::Truncate { depth }),
        2 => (any::<u8>(), 0u8..6).prop_map(|(seed, birthday_back)| WOp::CreateAccount { seed, birthday_back }),
        2 => (any::<u8>(), 0u8..6).prop_map(|(key, birthday_back)| WOp::ImportUfvk { key, birthday_back }),
        2 => (0u8..3).prop_map(|idx| WOp::DeleteAccount { idx }),
        3 => (any::<u32>(), 1u8..4, 0u8..3, 1u8..30).prop_map(|(first, n, owner, for_blocks)| WOp::Lock { first, n, owner, for_blocks }),
        1 => (any::<u32>(), 0u8..3).prop_map(|(which, owner)| WOp::Unlock { which, owner }),
        1 => (0u8..3).prop_map(|idx| WOp::ClearLocks { idx }),
        2 => (any::<u32>(), 1u8..20, 0u8..5).prop_map(|(sel, len, prio)| WOp::QueueRescan { sel, len, prio }),
        2 => (any::<u32>(), 0u8..3).prop_map(|(which, status)| WOp::SetTxStatus { which, status }),
        1 => (0u8..10, 0u8..3).prop_map(|(below_back, retain)| WOp::PruneQueue { below_back, retain }),
        3 => (0u8..12).prop_map(|depth| WOp::TruncateToChainState { depth }),
        4 => (0u8..12, 0u8..4).prop_map(|(depth, reset)| WOp::RewindToChainState { depth, reset }),
        3 => (any::<bool>(), 1u8..4, any::<bool>(), any::<u8>()).prop_map(|(mined, n_out, to_wallet, salt)| WOp::StoreDecrypted { mined, n_out, to_wallet, salt }),
        3 => (0u8..3, 1u8..4, any::<u8>()).prop_map(|(acct, n_out, salt)| WOp::StoreSent { acct, n_out, salt }),
    ]
}

#[derive(Clone, Debug)]
struct C02Case {
    hist: Case,
    /// blocks appended (unscanned) after the history, so that there is something to scan
    extra_blocks: Vec<BlockSpec>,
    pre_lock: Option<(u32, u8, u8)>,
    /// aim the pre-lock at a later element of the batch a `Lock` operation is about to lock, under a different
    /// owner, so that the batch fails AFTER its first outputs were locked (`LockFailure` must roll those back)
    pre_lock_aimed: bool,
    op: WOp,
    pos_sel: Vec<u32>,
    mig: MigPart,
}

/// The pool-migration part of a case (empty for the sub-checks that predate it).
#[derive(Clone, Debug, Default)]
struct MigPart {
    /// scan every gap of the history (in chunks of this many blocks) before the extra blocks are appended, so that
    /// the wallet has a fully-scanned height right below them
    scan_all: Option<u16>,
    /// migrations persisted (in this order) before the operation; when two name the same account the first one is
    /// made terminal, so that the account has history plus a pending record
    migs: Vec<MigSpec>,
    /// reader side: the transactions the oracle is asked about are those of this migration, built for this account
    probe: Option<MigSpec>,
    settle: u8,
}

fn arb_c02_case() -> impl Strategy<Value = C02Case> {
    arb_case(14, 6).prop_flat_map(|hist| {
        let iw = hist.world.nu6_3_offset.is_some();
        let (na, nf) = (hist.world.n_accounts, hist.world.n_foreign);
        (
            proptest::collection::vec(arb_block(na, nf, iw, 3, 4), 0..6),
            proptest::option::weighted(0.4, (any::<u32>(), 0u8..3, 1u8..30)),
            arb_wop(),
            proptest::collection::vec(any::<u32>(), 12),
        )
            .prop_map(move |(extra_blocks, pre_lock, op, pos_sel)| C02Case { hist: hist.clone(), extra_blocks, pre_lock, pre_lock_aimed: false, op, pos_sel, mig: MigPart::default() })
    })
}

/// Cases whose operation is a batch `lock_outputs` of 2-4 outputs with one of the later outputs already locked by
/// another owner.
fn arb_c02_lock_case() -> impl Strategy<Value = C02Case> {
    (arb_c02_case(), any::<u32>(), 2u8..5, 0u8..3, 1u8..30, any::<u32>(), 1u8..30).prop_map(|(mut c, first, n, owner, for_blocks, sel, pre_for)| {
        c.op = WOp::Lock { first, n, owner, for_blocks };
        c.pre_lock = Some((sel, owner, pre_for));
        c.pre_lock_aimed = true;
        c
    })
}

/// Operations for the states that hold persisted migrations: the store's own operations, and the wallet operations
/// that must move the migration rows atomically with the rest (truncations and rewinds, account deletion, scans —
/// whose result the migration oracles read).
fn arb_mig_wop() -> impl Strategy<Value = WOp> {
    prop_oneof![
        36 => migration::arb_mig_op().prop_map(WOp::Mig),
        5 => (0u8..12).prop_map(|depth| WOp::Truncate { depth }),
        3 => (0u8..12).prop_map(|depth| WOp::TruncateToChainState { depth }),
        4 => (0u8..12, 0u8..4).prop_map(|(depth, reset)| WOp::RewindToChainState { depth, reset }),
        2 => (0u8..3).prop_map(|idx| WOp::DeleteAccount { idx }),
        2 => (any::<u32>(), 1u8..20).prop_map(|(sel, len)| WOp::Scan { sel, len }),
    ]
}

fn arb_mig_part(reader: bool) -> impl Strategy<Value = MigPart> {
    (
        proptest::option::weighted(0.75, 1u16..60),
        prop_oneof![1 => Just(0usize), 5 => Just(1usize), 4 => Just(2usize)].prop_flat_map(|n| proptest::collection::vec(migration::arb_mig_spec(), n)),
        migration::arb_mig_spec(),
        0u8..4,
    )
        .prop_map(move |(scan_all, migs, probe, settle)| MigPart { scan_all, migs, probe: reader.then_some(probe), settle })
}

/// 1-3 blocks of Orchard receipts for the wallet's accounts. Generated histories hold few Orchard notes (most accounts
/// none), while an Orchard -> Ironwood migration is committed by an account that has Orchard funds: these blocks are
/// put in front of the generated history (three times out of four) so that the migrations' nullifier caches, their
/// note reservations and the satisfiability oracle have real notes to refer to.
fn arb_orchard_funding() -> impl Strategy<Value = Vec<BlockSpec>> {
    let item = (0u8..3, arb_scope(), arb_value()).prop_map(|(a, scope, value)| ItemSpec::Recv { pool: Pool::Orchard, who: Who::Wallet(a), scope, value });
    let tx = proptest::collection::vec(item, 1..=3).prop_map(|items| TxSpec { items });
    let block = proptest::collection::vec(tx, 1..=2).prop_map(|txs| BlockSpec { txs });
    prop_oneof![1 => Just(vec![]), 3 => proptest::collection::vec(block, 1..=3)]
}

fn with_orchard_funding(mut c: C02Case, blocks: Vec<BlockSpec>) -> C02Case {
    if !blocks.is_empty() {
        let na = c.hist.world.n_accounts.max(1);
        let blocks = blocks
            .into_iter()
            .map(|b| BlockSpec {
                txs: b
                    .txs
                    .into_iter()
                    .map(|t| TxSpec {
                        items: t
                            .items
                            .into_iter()
                            .map(|i| match i {
                                ItemSpec::Recv { pool, who: Who::Wallet(a), scope, value } => ItemSpec::Recv { pool, who: Who::Wallet(a % na), scope, value },
                                other => other,
                            })
                            .collect(),
                    })
                    .collect(),
            })
            .collect();
        c.hist.ops.insert(0, Op::AddBlocks(blocks));
    }
    c
}

/// (state with 0-2 persisted migrations for 1-2 accounts, operation from `arb_mig_wop`)
fn arb_c02_mig_case() -> impl Strategy<Value = C02Case> {
    (arb_c02_case(), arb_mig_wop(), arb_mig_part(false), arb_orchard_funding()).prop_map(|(mut c, op, mig, funding)| {
        c.op = op;
        c.mig = mig;
        with_orchard_funding(c, funding)
    })
}

/// Cases aimed at the release of note reservations: every transaction of the persisted migrations is at least proved
/// and holds a lock-owner token (under which `build_state` reserves an Orchard note of the account), and the operation
/// ends the migration (`cancel_migration`, or persisting it as superseded / cancelled), so that the store must clear
/// the wallet's lock columns and flip the migration's status in ONE transaction.
fn arb_c02_release_case() -> impl Strategy<Value = C02Case> {
    (arb_c02_mig_case(), 0u8..4, any::<u8>()).prop_map(|(mut c, which, acct)| {
        for m in &mut c.mig.migs {
            m.consistent = false;
            if !m.stage.is_terminal() {
                m.stage = migration::Stage::PartlyBroadcast;
            }
            for g in m.layers.iter_mut().flatten().chain(m.transfers.iter_mut()) {
                g.lock = true;
                if matches!(g.st, migration::StSel::Awaiting | migration::StSel::Signed) {
                    g.st = migration::StSel::Proved;
                }
            }
        }
        let acct = acct % 208; // an account that holds a migration, when there is one
        c.op = WOp::Mig(match which {
            0 | 1 => MigOp::Cancel { acct },
            2 => MigOp::Mutate { acct, how: migration::MutSel::Supersede, sel: 0, off: 0 },
            _ => MigOp::Mutate { acct, how: migration::MutSel::MarkCancelled, sel: 0, off: 0 },
        });
        c
    })
}

/// Reader side: the writer is mostly an operation that moves the chain view the oracles read (scan, truncation,
/// rewind), sometimes a store operation.
fn arb_c02_mig_reader_case() -> impl Strategy<Value = C02Case> {
    let op = prop_oneof![
        8 => (any::<u32>(), 1u8..20).prop_map(|(sel, len)| WOp::Scan { sel, len }),
        6 => (0u8..10).prop_map(|depth| WOp::Truncate { depth }),
        2 => (0u8..10).prop_map(|depth| WOp::TruncateToChainState { depth }),
        3 => (0u8..10, 0u8..4).prop_map(|(depth, reset)| WOp::RewindToChainState { depth, reset }),
        1 => (any::<u32>(), 0u8..3).prop_map(|(which, status)| WOp::SetTxStatus { which, status }),
        // (no account deletion here: a store handle resolves its account row when it is created, so "handle created
        // before the deletion, read after it" is not a snapshot by construction and nothing documents it as one)
        6 => migration::arb_mig_op().prop_map(WOp::Mig),
    ];
    (arb_c02_case(), op, arb_mig_part(true), arb_orchard_funding()).prop_map(|(mut c, op, mig, funding)| {
        c.op = op;
        c.mig = mig;
        with_orchard_funding(c, funding)
    })
}

/// Everything an operation needs, immutable and shareable.
struct OpCtx {
    world: World,
    chain: Chain,
    accounts: Vec<AccountUuid>,
    /// mined wallet notes known to the wallet: (account idx, pool, txid, out_index)
    notes: Vec<(u8, Pool, [u8; 32], u32)>,
    /// txids of wallet transactions
    txids: Vec<[u8; 32]>,
    max_scanned: Option<u32>,
    gaps: Vec<(u32, u32)>,
    /// what generated migrations are built against (see `migration::MigEnv`)
    menv: MigEnv,
}

fn shielded(pool: Pool) -> ShieldedPool {
    match pool {
        Pool::Sapling => ShieldedPool::Sapling,
        Pool::Orchard => ShieldedPool::Orchard,
        Pool::Ironwood => ShieldedPool::Ironwood,
    }
}

fn out_ref(n: &(u8, Pool, [u8; 32], u32)) -> OutputRef {
    OutputRef::new(TxId::from_bytes(n.2), PoolType::Shielded(shielded(n.1)), n.3)
}

/// Runs the operation; `Ok(summary)` / `Err(message)`. Deterministic in (db state, op, ctx).
fn run_op(conn: &mut Connection, op: &WOp, c: &OpCtx) -> Result<String, String> {
    let tip = c.chain.tip_height();
    let base = c.chain.base_height;
    if let WOp::Mig(m) = op {
        return migration::run_mig_op(conn, m, &c.menv);
    }
    let db = &mut wdb(conn, &c.world);
    match op {
        WOp::Mig(_) => unreachable!(),
        WOp::Scan { sel, len } => {
            if tip == base {
                return Ok("nothing-to-scan".into());
            }
            // prefer the start of a gap (new data), else any height
            let from = if !c.gaps.is_empty() && sel % 4 != 0 {
                let (s, e) = c.gaps[vcore::pick_index(*sel, c.gaps.len())];
                if sel % 3 == 0 {
                    e.saturating_sub(*len as u32).max(s)
                } else {
                    s
                }
            } else {
                base + 1 + vcore::pick_index(*sel, (tip - base) as usize) as u32
            };
            let len = (*len as u32).min(tip + 1 - from);
            let src = c.chain.source_range(from, len);
            scan_cached_blocks(&c.world.net, &src, db, BlockHeight::from_u32(from), c.chain.state_at(from - 1), len as usize)
                .map(|s| format!("scanned {:?}", s.scanned_range()))
                .map_err(|e| format!("{e:?}"))
        }
        WOp::UpdateTip { extra } => {
            let h = tip.max(c.max_scanned.unwrap_or(base)).max(base + 1) + *extra as u32;
            db.update_chain_tip(BlockHeight::from_u32(h)).map(|_| format!("tip {h}")).map_err(|e| format!("{e:?}"))
        }
        WOp::Truncate { depth } => {
            let top = c.max_scanned.unwrap_or(tip).max(base);
            let h = top.saturating_sub(*depth as u32).max(base);
            db.truncate_to_height(BlockHeight::from_u32(h)).map(|g| format!("truncated to {g:?}")).map_err(|e| format!("{e:?}"))
        }
        WOp::CreateAccount { seed, birthday_back } => {
            let h = tip.saturating_sub(*birthday_back as u32).max(base);
            let birthday = AccountBirthday::from_parts(c.chain.state_at(h).clone(), None);
            let mut s = [*seed; 32];
            s[0] = 0xC0;
            db.create_account("new", &SecretVec::new(s.to_vec()), &birthday, None).map(|_| "created".to_string()).map_err(|e| format!("{e:?}"))
        }
        WOp::ImportUfvk { key, birthday_back } => {
            let h = tip.saturating_sub(*birthday_back as u32).max(base);
            let birthday = AccountBirthday::from_parts(c.chain.state_at(h).clone(), None);
            let mut s = [*key; 32];
            s[1] = 0xF0;
            let ks = KeySet::derive(&c.world.net, &s, (*key % 3) as u32);
            db.import_account_ufvk("imported", &ks.ufvk, &birthday, AccountPurpose::ViewOnly, None).map(|_| "imported".to_string()).map_err(|e| format!("{e:?}"))
        }
        WOp::DeleteAccount { idx } => {
            let a = c.accounts[*idx as usize % c.accounts.len()];
            db.delete_account(a).map(|_| "deleted".to_string()).map_err(|e| format!("{e:?}"))
        }
        WOp::Lock { first, n, owner, for_blocks } => {
            if c.notes.is_empty() {
                return Ok("no-notes".into());
            }
            let start = vcore::pick_index(*first, c.notes.len());
            let acct = c.notes[start].0;
            let outs: Vec<OutputRef> = c.notes.iter().cycle().skip(start).take(c.notes.len()).filter(|x| x.0 == acct).take(*n as usize).map(out_ref).collect();
            db.lock_outputs(&outs, LockOwner::new([*owner + 1; 32]), BlockHeight::from_u32(tip + *for_blocks as u32))
                .map(|k| format!("locked {k}"))
                .map_err(|e| format!("{e:?}"))
        }
        WOp::Unlock { which, owner } => {
            if c.notes.is_empty() {
                return Ok("no-notes".into());
            }
            let n = &c.notes[vcore::pick_index(*which, c.notes.len())];
            db.unlock_output(&out_ref(n), LockOwner::new([*owner + 1; 32])).map(|b| format!("unlocked {b}")).map_err(|e| format!("{e:?}"))
        }
        WOp::ClearLocks { idx } => {
            let a = c.accounts[*idx as usize % c.accounts.len()];
            db.clear_locked_outputs(a).map(|k| format!("cleared {k}")).map_err(|e| format!("{e:?}"))
        }
        WOp::QueueRescan { sel, len, prio } => {
            if tip == base {
                return Ok("empty-chain".into());
            }
            let from = base + 1 + vcore::pick_index(*sel, (tip - base) as usize) as u32;
            let to = (from + *len as u32).min(tip + 1);
            let p = match prio {
                0 => ScanPriority::Historic,
                1 => ScanPriority::OpenAdjacent,
                2 => ScanPriority::FoundNote,
                3 => ScanPriority::ChainTip,
                _ => ScanPriority::Verify,
            };
            db.queue_rescans(NonEmpty::new(BlockHeight::from_u32(from)..BlockHeight::from_u32(to)), p).map(|_| "queued".to_string()).map_err(|e| format!("{e:?}"))
        }
        WOp::SetTxStatus { which, status } => {
            if c.txids.is_empty() {
                return Ok("no-txs".into());
            }
            let t = c.txids[vcore::pick_index(*which, c.txids.len())];
            let st = match status {
                0 => TransactionStatus::TxidNotRecognized,
                1 => TransactionStatus::NotInMainChain,
                _ => TransactionStatus::Mined(BlockHeight::from_u32(tip)),
            };
            db.set_transaction_status(TxId::from_bytes(t), st).map(|_| "status-set".to_string()).map_err(|e| format!("{e:?}"))
        }
        WOp::TruncateToChainState { depth } => {
            let top = c.max_scanned.unwrap_or(tip).max(base);
            let h = top.saturating_sub(*depth as u32).max(base);
            db.truncate_to_chain_state(c.chain.state_at(h).clone()).map(|_| format!("truncated to chain state {h}")).map_err(|e| format!("{e:?}"))
        }
        WOp::RewindToChainState { depth, reset } => {
            let top = c.max_scanned.unwrap_or(tip).max(base);
            let h = top.saturating_sub(*depth as u32).max(base);
            let reset_set: std::collections::HashSet<AccountUuid> = c.accounts.iter().copied().take((*reset as usize).min(c.accounts.len())).collect();
            db.rewind_to_chain_state(c.chain.state_at(h).clone(), reset_set).map(|_| format!("rewound to chain state {h}")).map_err(|e| format!("{e:?}"))
        }
        WOp::StoreDecrypted { mined, n_out, to_wallet, salt } => {
            let tx = transparent_tx(c, *n_out, *to_wallet, *salt);
            let ufvks: std::collections::HashMap<AccountUuid, zcash_keys::keys::UnifiedFullViewingKey> =
                c.accounts.iter().copied().zip(c.world.accounts.iter().map(|k| k.ufvk.clone())).collect();
            let mined_height = if *mined && tip > base { Some(BlockHeight::from_u32(tip)) } else { None };
            let d = zcash_client_backend::decrypt_transaction(&c.world.net, mined_height, Some(BlockHeight::from_u32(tip.max(base + 1))), &tx, &ufvks);
            db.store_decrypted_tx(d).map(|_| "stored-decrypted".to_string()).map_err(|e| format!("{e:?}"))
        }
        WOp::StoreSent { acct, n_out, salt } => {
            use zcash_client_backend::data_api::{SentTransaction, SentTransactionOutput};
            use zcash_client_backend::wallet::Recipient;
            let tx = transparent_tx(c, *n_out, false, *salt);
            let a = c.accounts[*acct as usize % c.accounts.len()];
            let addr = foreign_taddr(c);
            let outs: Vec<SentTransactionOutput<AccountUuid>> = (0..*n_out as usize)
                .map(|i| {
                    SentTransactionOutput::from_parts(
                        i,
                        Recipient::External {
                            recipient_address: zcash_keys::address::Address::Transparent(addr).to_zcash_address(&c.world.net),
                            output_pool: PoolType::Transparent,
                        },
                        zcash_protocol::value::Zatoshis::const_from_u64(10_000 + i as u64),
                        None,
                    )
                })
                .collect();
            let created = time::OffsetDateTime::from_unix_timestamp(1_740_441_600).unwrap();
            let st = SentTransaction::new(
                &tx,
                created,
                zcash_client_backend::data_api::wallet::TargetHeight::from(BlockHeight::from_u32(tip.max(base) + 1)),
                a,
                &outs,
                zcash_protocol::value::Zatoshis::const_from_u64(10_000),
                &[],
            );
            db.store_transactions_to_be_sent(&[st]).map(|_| "stored-sent".to_string()).map_err(|e| format!("{e:?}"))
        }
        WOp::PruneQueue { below_back, retain } => {
            let h = tip.saturating_sub(*below_back as u32).max(base);
            let r = match retain {
                0 => None,
                1 => Some(ScanPriority::FoundNote),
                _ => Some(ScanPriority::ChainTip),
            };
            db.prune_scan_queue_below(BlockHeight::from_u32(h), r).map(|k| format!("pruned {k}")).map_err(|e| format!("{e:?}"))
        }
    }
}

fn foreign_taddr(c: &OpCtx) -> zcash_transparent::address::TransparentAddress {
    use zcash_transparent::keys::IncomingViewingKey;
    let ks = KeySet::derive(&c.world.net, &[0x5e; 32], 0);
    ks.ufvk.transparent().expect("transparent key").derive_external_ivk().expect("ivk").default_address().0
}

/// A transparent-only v5 transaction with one (unknown) input and `n_out` P2PKH outputs.
fn transparent_tx(c: &OpCtx, n_out: u8, to_wallet: bool, salt: u8) -> zcash_primitives::transaction::Transaction {
    use zcash_primitives::transaction::{TransactionData, TxVersion};
    use zcash_transparent::address::Script;
    use zcash_transparent::bundle::{Authorized, Bundle, OutPoint, TxIn, TxOut};
    use zcash_transparent::keys::{IncomingViewingKey, NonHardenedChildIndex};
    let mut prev = [salt; 32];
    prev[0] = 0x77;
    let vout = (0..n_out as u32)
        .map(|i| {
            let addr = if to_wallet {
                let k = &c.world.accounts[i as usize % c.world.accounts.len()];
                k.ufvk.transparent().expect("transparent key").derive_external_ivk().expect("ivk").derive_address(NonHardenedChildIndex::from_index(i % 3).unwrap()).expect("addr")
            } else {
                foreign_taddr(c)
            };
            TxOut::new(zcash_protocol::value::Zatoshis::const_from_u64(10_000 + i as u64 + salt as u64), addr.script().into())
        })
        .collect();
    let bundle = Bundle { vin: vec![TxIn::from_parts(OutPoint::new(prev, salt as u32), Script::default(), u32::MAX - 1)], vout, authorization: Authorized };
    TransactionData::<zcash_primitives::transaction::Authorized>::from_parts(
        TxVersion::V5,
        zcash_protocol::consensus::BranchId::Nu6,
        salt as u32,
        BlockHeight::from_u32(c.chain.tip_height() + 40),
        Some(bundle),
        None,
        None,
        None,
    )
    .freeze()
    .expect("freeze")
}

#[derive(Clone, Default)]
struct Hooks {
    steps: Arc<AtomicU64>,
    fire_at: Arc<AtomicU64>,
    fired: Arc<AtomicBool>,
    changes_at_fault: Arc<AtomicU64>,
    commits: Arc<AtomicU64>,
    /// commits of write transactions that had changed no row (`sqlite3_total_changes` unchanged since the previous
    /// commit): e.g. an autocommit `UPDATE` that matched nothing. They leave the database exactly as it was.
    empty_commits: Arc<AtomicU64>,
    changes_at_last_commit: Arc<AtomicU64>,
    veto_commit: Arc<AtomicBool>,
    /// called at `snapshot_at` with the step number
    snapshot_at: Arc<AtomicU64>,
    snapshot: Arc<Mutex<Option<Box<dyn FnMut() + Send>>>>,
    /// commits the connection had performed when the snapshot callback ran. SQLite delivers the progress callbacks
    /// that fell due inside a statement's last straight-line opcodes only once the statement has halted, i.e. AFTER
    /// an autocommit statement (or a COMMIT) has committed; such a snapshot must see the complete result instead.
    commits_at_snapshot: Arc<AtomicU64>,
    /// called inside the commit hook (before the commit is durable)
    at_commit: Arc<Mutex<Option<Box<dyn FnMut() + Send>>>>,
    /// authorisations of row writes (INSERT / UPDATE / DELETE) asked so far while statements were compiled (counted only
    /// once `install_authorizer` was called), the one to deny (0 = none), whether it was denied, and the row changes the
    /// connection had made by then
    auth_writes: Arc<AtomicU64>,
    deny_at: Arc<AtomicU64>,
    denied: Arc<AtomicBool>,
    changes_at_deny: Arc<AtomicU64>,
    /// when set, `segments` records the maximal runs of VM steps during which the same set of statements was running
    log_statements: Arc<AtomicBool>,
    segments: Arc<Mutex<Vec<Segment>>>,
}

/// A maximal run of VM steps with the same set of running statements.
#[derive(Clone, Debug)]
struct Segment {
    first: u64,
    last: u64,
    /// identity of the set of running statements
    key: u64,
    /// one of them is an INSERT / UPDATE / DELETE / REPLACE
    writes: bool,
}

impl Hooks {
    /// Statement-level faults that leave the enclosing transaction OPEN (unlike SQLITE_INTERRUPT, which rolls an
    /// explicit transaction back): the `deny_at`-th authorisation of a row write is refused, so the statement fails to
    /// compile with SQLITE_AUTH and its caller sees an ordinary statement error.
    fn install_authorizer(&self, conn: &Connection) {
        use rusqlite::hooks::{AuthAction, AuthContext, Authorization};
        let h = self.clone();
        let raw = unsafe { conn.handle() } as usize;
        conn.authorizer(Some(move |c: AuthContext<'_>| {
            if matches!(c.action, AuthAction::Insert { .. } | AuthAction::Update { .. } | AuthAction::Delete { .. }) {
                let n = h.auth_writes.fetch_add(1, Ordering::Relaxed) + 1;
                if n == h.deny_at.load(Ordering::Relaxed) {
                    h.denied.store(true, Ordering::Relaxed);
                    let ch = unsafe { rusqlite::ffi::sqlite3_total_changes(raw as *mut rusqlite::ffi::sqlite3) };
                    h.changes_at_deny.store(ch as u64, Ordering::Relaxed);
                    return Authorization::Deny;
                }
            }
            Authorization::Allow
        }));
    }
}

fn open_hooked(path: &Path, wal: bool) -> (Connection, Hooks) {
    let conn = Connection::open(path).expect("open copy");
    rusqlite::vtab::array::load_module(&conn).expect("array module");
    if wal {
        conn.pragma_update(None, "journal_mode", "WAL").expect("wal");
    }
    conn.busy_timeout(std::time::Duration::from_millis(0)).ok();
    let hooks = Hooks::default();
    let raw = unsafe { conn.handle() } as usize;
    {
        let h = hooks.clone();
        conn.progress_handler(
            1,
            Some(move || {
                let n = h.steps.fetch_add(1, Ordering::Relaxed) + 1;
                if h.log_statements.load(Ordering::Relaxed) {
                    let (mut key, mut writes) = (0u64, false);
                    unsafe {
                        let db = raw as *mut rusqlite::ffi::sqlite3;
                        let mut st = rusqlite::ffi::sqlite3_next_stmt(db, std::ptr::null_mut());
                        while !st.is_null() {
                            if rusqlite::ffi::sqlite3_stmt_busy(st) != 0 {
                                key = key.wrapping_mul(0x100_0000_01b3).wrapping_add(st as usize as u64);
                                let sql = rusqlite::ffi::sqlite3_sql(st);
                                if !sql.is_null() {
                                    let t = std::ffi::CStr::from_ptr(sql).to_string_lossy().trim_start().chars().take(8).collect::<String>().to_ascii_uppercase();
                                    writes |= t.starts_with("INSERT") || t.starts_with("UPDATE") || t.starts_with("DELETE") || t.starts_with("REPLACE");
                                }
                            }
                            st = rusqlite::ffi::sqlite3_next_stmt(db, st);
                        }
                    }
                    let mut segs = h.segments.lock().unwrap();
                    match segs.last_mut() {
                        Some(last) if last.key == key => last.last = n,
                        _ => segs.push(Segment { first: n, last: n, key, writes }),
                    }
                }
                if n == h.snapshot_at.load(Ordering::Relaxed) {
                    h.commits_at_snapshot.store(h.commits.load(Ordering::Relaxed), Ordering::Relaxed);
                    if let Some(f) = h.snapshot.lock().unwrap().as_mut() {
                        f();
                    }
                }
                if n == h.fire_at.load(Ordering::Relaxed) {
                    // Do not interrupt a transaction-control statement half-way: BEGIN does no I/O and cannot
                    // fail like this in reality (an interrupt between its AutoCommit and Halt opcodes leaves the
                    // connection inside a transaction nobody owns), and a failing COMMIT is modelled by the
                    // commit veto. Postpone the fault to the next step instead.
                    let mut control = false;
                    let mut data_stmt_running = false;
                    unsafe {
                        let db = raw as *mut rusqlite::ffi::sqlite3;
                        let mut st = rusqlite::ffi::sqlite3_next_stmt(db, std::ptr::null_mut());
                        while !st.is_null() {
                            if rusqlite::ffi::sqlite3_stmt_busy(st) != 0 {
                                let sql = rusqlite::ffi::sqlite3_sql(st);
                                if !sql.is_null() {
                                    let t = std::ffi::CStr::from_ptr(sql).to_string_lossy().trim_start().to_ascii_uppercase();
                                    if t.starts_with("BEGIN") || t.starts_with("COMMIT") || t.starts_with("END") || t.starts_with("ROLLBACK") || t.starts_with("SAVEPOINT") || t.starts_with("RELEASE") {
                                        control = true;
                                    } else {
                                        data_stmt_running = true;
                                    }
                                }
                            }
                            st = rusqlite::ffi::sqlite3_next_stmt(db, st);
                        }
                    }
                    if std::env::var("VERIF_DEBUG").is_ok() {
                        unsafe {
                            let db = raw as *mut rusqlite::ffi::sqlite3;
                            let mut st = rusqlite::ffi::sqlite3_next_stmt(db, std::ptr::null_mut());
                            while !st.is_null() {
                                let sql = rusqlite::ffi::sqlite3_sql(st);
                                let t = if sql.is_null() { "<null>".to_string() } else { std::ffi::CStr::from_ptr(sql).to_string_lossy().chars().take(60).collect() };
                                eprintln!("[debug] step {n}: stmt busy={} autocommit={} sql={t:?}", rusqlite::ffi::sqlite3_stmt_busy(st), rusqlite::ffi::sqlite3_get_autocommit(db));
                                st = rusqlite::ffi::sqlite3_next_stmt(db, st);
                            }
                        }
                    }
                    // (a statement in its final Halt opcode is no longer "busy": wait for a running data statement)
                    if control || !data_stmt_running {
                        h.fire_at.store(n + 1, Ordering::Relaxed);
                        return false;
                    }
                    h.fired.store(true, Ordering::Relaxed);
                    let ch = unsafe { rusqlite::ffi::sqlite3_total_changes(raw as *mut rusqlite::ffi::sqlite3) };
                    h.changes_at_fault.store(ch as u64, Ordering::Relaxed);
                    return true;
                }
                false
            }),
        );
    }
    {
        let h = hooks.clone();
        conn.commit_hook(Some(move || {
            h.commits.fetch_add(1, Ordering::Relaxed);
            let ch = unsafe { rusqlite::ffi::sqlite3_total_changes(raw as *mut rusqlite::ffi::sqlite3) } as u64;
            if h.changes_at_last_commit.swap(ch, Ordering::Relaxed) == ch {
                h.empty_commits.fetch_add(1, Ordering::Relaxed);
            }
            if let Some(f) = h.at_commit.lock().unwrap().as_mut() {
                f();
            }
            h.veto_commit.load(Ordering::Relaxed)
        }));
    }
    (conn, hooks)
}

/// Canonical dump of every table (the eight `orchard_ironwood_migration*` tables included: `dump_db_mapped`
/// walks `sqlite_schema`). Values that are not a function of (state, operation) are normalised:
/// account UUIDs and pool-migration record UUIDs (drawn from the OS) and the row ids of `addresses` (gap addresses are generated in
/// the iteration order of a `HashSet`, so their autoincrement ids — and references to them — vary
/// between otherwise identical runs). An address row is identified by (account, scope, diversifier).
/// `raw_len_only`: render `transactions.raw` by its length only. Needed where the operation extracts a transaction
/// from a PCZT: the extractor draws the binding signature's randomness from the OS (`apply_binding_signature(.., OsRng)`),
/// so the raw bytes (not the txid) of two extractions of the same PCZT differ in that signature.
fn canon_dump_x(path: &Path, raw_len_only: bool) -> Result<Dump, String> {
    let conn = Connection::open_with_flags(path, rusqlite::OpenFlags::SQLITE_OPEN_READ_WRITE).map_err(|e| e.to_string())?;
    Ok(canon_dump_conn_x(&conn, raw_len_only))
}

fn canon_dump_conn_x(conn: &Connection, raw_len_only: bool) -> Dump {
    let mut addr: BTreeMap<String, String> = BTreeMap::new();
    if let Ok(mut st) = conn.prepare("SELECT id, account_id, key_scope, hex(diversifier_index_be), ifnull(hex(imported_transparent_receiver_pubkey), ''), ifnull(hex(imported_transparent_receiver_script), '') FROM addresses") {
        if let Ok(rows) = st.query_map([], |r| Ok((r.get::<_, i64>(0)?, r.get::<_, i64>(1)?, r.get::<_, i64>(2)?, r.get::<_, Option<String>>(3)?, r.get::<_, String>(4)?, r.get::<_, String>(5)?))) {
            for r in rows.flatten() {
                addr.insert(r.0.to_string(), format!("addr<{}/{}/{:?}/{}{}>", r.1, r.2, r.3, r.4, r.5));
            }
        }
    }
    dump_db_mapped(conn, &|table, col, v| match (table, col) {
        ("accounts", "uuid") => "x'<uuid>'".to_string(),
        // the record id of a pool migration is `Uuid::new_v4()` (OS randomness), minted when the record is first persisted
        ("orchard_ironwood_migrations", "uuid") => "x'<uuid>'".to_string(),
        ("transactions", "raw") if raw_len_only && v != "NULL" => format!("<raw: {} hex digits>", v.len().saturating_sub(3)),
        ("addresses", "id") => addr.get(&v).cloned().unwrap_or(v),
        (_, "address_id") => addr.get(&v).cloned().unwrap_or(v),
        _ => v,
    })
}

fn normalise(d: Dump) -> Dump {
    d
}

fn copy_db(src: &Path, dst: &Path) {
    std::fs::copy(src, dst).expect("copy db");
    for ext in ["-journal", "-wal", "-shm"] {
        let s = PathBuf::from(format!("{}{}", src.display(), ext));
        let d = PathBuf::from(format!("{}{}", dst.display(), ext));
        let _ = std::fs::remove_file(&d);
        if s.exists() {
            let _ = std::fs::copy(&s, &d);
        }
    }
}

struct TempFiles(Vec<PathBuf>);
impl Drop for TempFiles {
    fn drop(&mut self) {
        for p in &self.0 {
            for ext in ["", "-journal", "-wal", "-shm"] {
                let _ = std::fs::remove_file(format!("{}{}", p.display(), ext));
            }
        }
    }
}

fn changed_rows(a: &Dump, b: &Dump) -> usize {
    let mut n = 0;
    for (t, ra) in a {
        let rb = b.get(t).cloned().unwrap_or_default();
        if *ra != rb {
            let sa: std::collections::BTreeSet<_> = ra.iter().collect();
            let sb: std::collections::BTreeSet<_> = rb.iter().collect();
            n += sa.symmetric_difference(&sb).count();
        }
    }
    n
}

fn op_kind(op: &WOp) -> &'static str {
    match op {
        WOp::Scan { .. } => "op:put_blocks",
        WOp::UpdateTip { .. } => "op:update_chain_tip",
        WOp::Truncate { .. } => "op:truncate_to_height",
        WOp::CreateAccount { .. } => "op:create_account",
        WOp::ImportUfvk { .. } => "op:import_account_ufvk",
        WOp::DeleteAccount { .. } => "op:delete_account",
        WOp::Lock { .. } => "op:lock_outputs",
        WOp::Unlock { .. } => "op:unlock_output",
        WOp::ClearLocks { .. } => "op:clear_locked_outputs",
        WOp::QueueRescan { .. } => "op:queue_rescans",
        WOp::SetTxStatus { .. } => "op:set_transaction_status",
        WOp::PruneQueue { .. } => "op:prune_scan_queue_below",
        WOp::TruncateToChainState { .. } => "op:truncate_to_chain_state",
        WOp::RewindToChainState { .. } => "op:rewind_to_chain_state",
        WOp::StoreDecrypted { .. } => "op:store_decrypted_tx",
        WOp::StoreSent { .. } => "op:store_transactions_to_be_sent",
        WOp::Mig(m) => migration::mig_op_kind(m),
    }
}

/// Builds the state on a file-backed wallet and returns (path of the state file, OpCtx).
fn build_state(case: &C02Case) -> Result<Option<(Hist, OpCtx)>, Fail> {
    let mut h = Hist::new(&case.hist.world, true);
    for (i, op) in case.hist.ops.iter().enumerate() {
        match h.apply(op, &step_name(i, op)) {
            Err(f) if f.signature == SIG_TREE_CONFLICT || f.signature == SIG_STALE_SUBTREE_ROOT => return Ok(None),
            r => r?,
        }
        if h.tainted().is_some() {
            return Ok(None); // known shardtree finding (C06): scans may fail with Conflict afterwards
        }
    }
    if let Some(chunk) = case.mig.scan_all {
        match h.scan_all(chunk) {
            Err(f) if f.signature == SIG_TREE_CONFLICT || f.signature == SIG_STALE_SUBTREE_ROOT => return Ok(None),
            r => r?,
        }
    }
    for b in &case.extra_blocks {
        h.chain.add_block(&h.world, b);
    }
    if h.chain.tip_height() > h.base() {
        h.ensure_tip_known("state")?;
    }
    let mut notes = vec![];
    let mut txids = std::collections::BTreeSet::new();
    for n in &h.ledger.known_notes {
        let note = &h.chain.notes[*n];
        if let Who::Wallet(a) = note.who {
            if h.ledger.scanned.contains(&note.block_id) {
                notes.push((a, note.pool, note.txid, note.out_index));
            }
            txids.insert(note.txid);
        }
    }
    if let (true, Some((sel, _, for_blocks)), WOp::Lock { first, n, owner, .. }) = (case.pre_lock_aimed, case.pre_lock, &case.op) {
        if !notes.is_empty() {
            // the same batch the operation will compute
            let start = vcore::pick_index(*first, notes.len());
            let acct = notes[start].0;
            let batch: Vec<&(u8, Pool, [u8; 32], u32)> = notes.iter().cycle().skip(start).take(notes.len()).filter(|x| x.0 == acct).take(*n as usize).collect();
            if batch.len() >= 2 {
                let victim = batch[1 + vcore::pick_index(sel, batch.len() - 1)];
                let tip = h.chain.tip_height();
                let other = LockOwner::new([(*owner + 1) % 3 + 1; 32]);
                let _ = h.w.db().lock_outputs(&[out_ref(victim)], other, BlockHeight::from_u32(tip + for_blocks as u32));
            }
        }
    } else if let Some((first, owner, for_blocks)) = case.pre_lock {
        if !notes.is_empty() {
            let n = &notes[vcore::pick_index(first, notes.len())];
            let tip = h.chain.tip_height();
            let _ = h.w.db().lock_outputs(&[out_ref(n)], LockOwner::new([owner + 1; 32]), BlockHeight::from_u32(tip + for_blocks as u32));
        }
    }
    // ---- pool migrations persisted before the operation ---------------------------------------------
    let n_acc = h.w.accounts.len();
    let fully_scanned = h.w.tdb.db().block_fully_scanned().map_err(|e| Fail::new("harness-fully-scanned", format!("{e:?}")))?.map(|m| u32::from(m.block_height()));
    let mut menv = MigEnv {
        net: h.world.net,
        tip: h.chain.tip_height(),
        scanned: fully_scanned.unwrap_or(h.base()),
        accounts: h.w.accounts.clone(),
        mig_accounts: vec![],
        orchard_nfs: (0..n_acc)
            .map(|a| h.chain.notes.iter().filter(|n| n.pool == Pool::Orchard && n.who == Who::Wallet(a as u8) && h.chain.on_branch(n.block_id)).map(|n| n.nf).collect())
            .collect(),
        txids: {
            let mut t: Vec<[u8; 32]> = h.chain.notes.iter().filter(|n| matches!(n.who, Who::Wallet(_)) && h.chain.on_branch(n.block_id)).map(|n| n.txid).collect();
            t.sort();
            t.dedup();
            t
        },
        orchard_roots: (h.base()..=h.chain.tip_height()).map(|x| (x, h.chain.state_at(x).final_orchard_tree().root().to_bytes())).collect(),
    };
    // a spec's account selector indexes the accounts ordered by how many scanned Orchard notes they hold (a migration
    // is committed by an account that has Orchard funds; most generated accounts have none)
    let mut ranked: Vec<usize> = (0..n_acc).collect();
    ranked.sort_by_key(|a| std::cmp::Reverse(notes.iter().filter(|n| n.0 as usize == *a && n.1 == Pool::Orchard).count()));
    let account_of = |spec: &MigSpec| ranked[spec.acct as usize % n_acc];
    for (i, spec) in case.mig.migs.iter().enumerate() {
        let ai = account_of(spec);
        let mut spec = spec.clone();
        if case.mig.migs[i + 1..].iter().any(|later| account_of(later) == ai) && !spec.stage.is_terminal() {
            // `Complete` history is revisited by the wallet's truncation walk, the policy statuses are not
            spec.stage = if spec.salt % 2 == 0 { migration::Stage::Complete } else { migration::Stage::Superseded };
        }
        let (state, locks) = migration::build_migration(&spec, &menv, ai);
        {
            use zcash_pool_migration::engine::PoolMigrationWrite;
            let acct = h.w.accounts[ai];
            let mut store = zcash_client_sqlite::pool_migration::orchard_ironwood::PoolMigrations::for_account(h.world.net, migration::clock(), h.w.tdb.conn_mut(), acct)
                .map_err(|e| Fail::new("harness-migration-store", format!("{e:?}")))?;
            store.replace_migration(&state).map_err(|e| Fail::new("harness-migration-persist", format!("persisting a generated migration failed: {e:?}\n{state:?}")))?;
        }
        // reserve one scanned Orchard note of the account under each lock-owner token the migration names, as the
        // prover's `lock_spent_notes` does (a terminal persist / cancel must release exactly these)
        let mine: Vec<(u8, Pool, [u8; 32], u32)> = notes.iter().filter(|n| n.0 as usize == ai && n.1 == Pool::Orchard).cloned().collect();
        if std::env::var("VERIF_DEBUG").is_ok() {
            eprintln!("[debug] migration for account {ai}: {} lock tokens, {} scanned orchard notes, status {:?}", locks.len(), mine.len(), state.status());
        }
        for (k, token) in locks.iter().enumerate() {
            // the first note (from a generated offset) that is not reserved yet
            for j in 0..mine.len() {
                let n = &mine[(j + k + spec.salt as usize) % mine.len()];
                let tip = h.chain.tip_height();
                let r = h.w.db().lock_outputs(&[out_ref(n)], LockOwner::new(*token), BlockHeight::from_u32(tip + 20 + k as u32));
                if std::env::var("VERIF_DEBUG").is_ok() {
                    eprintln!("[debug] reserve under migration token: {r:?}");
                }
                if r.is_ok() {
                    break;
                }
            }
        }
        if !menv.mig_accounts.contains(&ai) {
            menv.mig_accounts.push(ai);
        }
    }
    let ctx = OpCtx {
        menv,
        accounts: h.w.accounts.clone(),
        notes,
        txids: txids.into_iter().collect(),
        max_scanned: h.max_scanned(),
        gaps: gaps(&h.chain, &h.ledger),
        world: World::new(&case.hist.world),
        chain: Chain::new(&World::new(&case.hist.world)), // placeholder, replaced below
    };
    Ok(Some((h, ctx)))
}

fn positions(s: u64, sel: &[u32], dense: bool) -> Vec<u64> {
    let mut out = std::collections::BTreeSet::new();
    if s == 0 {
        return vec![];
    }
    let budget = if dense { 400 } else { 48 };
    if s <= budget {
        return (1..=s).collect();
    }
    for k in 1..=6.min(s) {
        out.insert(k);
        out.insert(s + 1 - k);
    }
    let spaced = if dense { 300 } else { 26 };
    for i in 1..=spaced {
        out.insert((s * i / (spaced + 1)).max(1));
    }
    for x in sel {
        out.insert(1 + (*x as u64 * s >> 32));
    }
    out.into_iter().collect()
}

/// The operation under test, as the fault procedure sees it.
struct OpUnderTest<'a> {
    kind: &'static str,
    /// rendering for messages
    desc: String,
    run: &'a (dyn Fn(&mut Connection) -> Result<String, String> + Sync),
    /// see `canon_dump_x`
    randomized_raw: bool,
    /// record the statement segments of the reference run (`RefInfo::segments`)
    log_statements: bool,
    /// count the write authorisations of the reference run (`RefInfo::write_auths`), for `denied_write_position`
    count_write_auths: bool,
}

/// What the reference run established.
struct RefInfo {
    d0: Dump,
    dr: Dump,
    ref_res: Result<String, String>,
    /// VM steps of the uninterrupted operation
    s: u64,
    commits: u64,
    changed: usize,
    crash_checked: u64,
    veto_checked: u64,
    /// statement segments of the reference run (only with `OpUnderTest::log_statements`)
    segments: Vec<Segment>,
    /// write authorisations asked during the reference run (only with `OpUnderTest::count_write_auths`)
    write_auths: u64,
}

#[derive(Default)]
struct PosStats {
    injected: u64,
    errs: u64,
    swallowed: u64,
    mid_write: u64,
    snapshots: u64,
    snapshots_after_commit: u64,
    snapshot_busy: u64,
    denied: u64,
    denied_mid_write: u64,
    denied_failed: u64,
}

/// Reference run (VM steps, commits, crash copy at the commit boundary) and the vetoed commit.
fn reference_checks(state_path: &Path, p: &dyn Fn(&str) -> PathBuf, op: &OpUnderTest) -> Result<RefInfo, Fail> {
    let kind = op.kind;
    // pre-state
    let d0 = canon_dump_x(state_path, op.randomized_raw).map_err(|e| Fail::new("harness-dump", e))?;
    for t in migration::MIGRATION_TABLES {
        vensure!(d0.contains_key(t), "harness-migration-table-missing", "the canonical dump has no table {t}");
    }

    // ---- reference run -------------------------------------------------------------------------
    copy_db(state_path, &p("ref"));
    let (mut rdb, rh) = open_hooked(&p("ref"), false);
    // crash copy at the commit boundary
    {
        let src = p("ref");
        let dst = p("crash");
        *rh.at_commit.lock().unwrap() = Some(Box::new(move || copy_db(&src, &dst)));
    }
    rh.log_statements.store(op.log_statements, Ordering::Relaxed);
    if op.count_write_auths {
        rh.install_authorizer(&rdb);
    }
    let ref_res = catch(|| (op.run)(&mut rdb)).map_err(|pn| Fail::new(format!("panic-in-operation:{kind}"), format!("{} panicked: {pn}", op.desc)))?;
    rh.log_statements.store(false, Ordering::Relaxed);
    let segments = std::mem::take(&mut *rh.segments.lock().unwrap());
    let s = rh.steps.load(Ordering::Relaxed);
    let commits = rh.commits.load(Ordering::Relaxed);
    let empty_commits = rh.empty_commits.load(Ordering::Relaxed);
    let write_auths = rh.auth_writes.load(Ordering::Relaxed);
    drop(rdb);
    let dr = canon_dump_x(&p("ref"), op.randomized_raw).map_err(|e| Fail::new("harness-dump", e))?;
    let changed = changed_rows(&d0, &dr);
    match &ref_res {
        Ok(_) => {
            vensure!(commits <= 1, format!("more-than-one-commit:{kind}"), "{} succeeded with {commits} commits (a write outside the operation's transaction)", op.desc);
            vensure!(changed == 0 || commits == 1, format!("changed-without-commit:{kind}"), "{} changed {changed} rows with {commits} commits", op.desc);
        }
        Err(e) => {
            // (a commit that changed no row — an autocommit statement that matched nothing — leaves the database as it was)
            vensure!(commits == empty_commits, format!("commit-on-error:{kind}"), "{} failed ({e}) but committed {commits} time(s), {} of them with row changes", op.desc, commits - empty_commits);
            vensure!(changed == 0, format!("error-changed-db:{kind}"), "{} failed ({e}) but changed the database: {}", op.desc, diff_dump(&d0, &dr));
        }
    }
    // crash copy taken inside the commit hook must recover to the pre-state
    let mut crash_checked = 0u64;
    if commits >= 1 && p("crash").exists() {
        let dc = canon_dump_x(&p("crash"), op.randomized_raw).map_err(|e| Fail::new("harness-dump", e))?;
        vensure!(dc == d0, format!("crash-at-commit-not-prestate:{kind}"), "a copy of the database taken at the commit boundary of {} recovers to a state that is not the pre-state: {}", op.desc, diff_dump(&d0, &dc));
        crash_checked = 1;
    }

    // ---- vetoed commit ---------------------------------------------------------------------------
    let mut veto_checked = 0u64;
    if ref_res.is_ok() && commits == 1 {
        copy_db(state_path, &p("veto"));
        let (mut vdb, vh) = open_hooked(&p("veto"), false);
        vh.veto_commit.store(true, Ordering::Relaxed);
        let r = catch(|| (op.run)(&mut vdb)).map_err(|pn| Fail::new(format!("panic-on-commit-failure:{kind}"), format!("{} panicked when its commit failed: {pn}", op.desc)))?;
        drop(vdb);
        let dv = canon_dump_x(&p("veto"), op.randomized_raw).map_err(|e| Fail::new("harness-dump", e))?;
        vensure!(r.is_err(), format!("ok-despite-failed-commit:{kind}"), "{} returned Ok although its COMMIT was turned into a ROLLBACK", op.desc);
        vensure!(dv == d0, format!("failed-commit-changed-db:{kind}"), "{}: failed commit left changes: {}", op.desc, diff_dump(&d0, &dv));
        veto_checked = 1;
    }
    Ok(RefInfo { d0, dr, ref_res, s, commits, changed, crash_checked, veto_checked, segments, write_auths })
}

/// One enumerated fault position: interrupt VM step `k` (optionally with a second-connection snapshot one step
/// earlier), check the outcome against pre-state / reference result, and retry after a failure.
fn fault_position(state_path: &Path, p: &dyn Fn(&str) -> PathBuf, op: &OpUnderTest, info: &RefInfo, k: u64, with_snapshot: bool, retry: bool, st: &mut PosStats) -> Result<(), Fail> {
    let kind = op.kind;
    let RefInfo { d0, dr, ref_res, s, commits, .. } = info;
    let (s, commits) = (*s, *commits);
    {
        copy_db(state_path, &p("flt"));
        let (mut fdb, fh) = open_hooked(&p("flt"), false);
        fh.fire_at.store(k, Ordering::Relaxed);
        // writer-side snapshot a little before the fault
        let snap_result: Arc<Mutex<Option<Result<Dump, String>>>> = Arc::new(Mutex::new(None));
        if with_snapshot && k > 1 {
            let path = p("flt");
            let slot = snap_result.clone();
            let raw_len_only = op.randomized_raw;
            fh.snapshot_at.store(k - 1, Ordering::Relaxed);
            *fh.snapshot.lock().unwrap() = Some(Box::new(move || {
                let r = (|| -> Result<Dump, String> {
                    let c = Connection::open_with_flags(&path, rusqlite::OpenFlags::SQLITE_OPEN_READ_ONLY).map_err(|e| e.to_string())?;
                    c.busy_timeout(std::time::Duration::from_millis(0)).ok();
                    c.execute_batch("BEGIN").map_err(|e| e.to_string())?;
                    // any read may hit SQLITE_BUSY when the writer holds an exclusive lock
                    let mut st = c.prepare("SELECT count(*) FROM sqlite_schema").map_err(|e| e.to_string())?;
                    let _: i64 = st.query_row([], |r| r.get(0)).map_err(|e| e.to_string())?;
                    drop(st);
                    let d = canon_dump_conn_x(&c, raw_len_only);
                    c.execute_batch("COMMIT").map_err(|e| e.to_string())?;
                    Ok(d)
                })();
                *slot.lock().unwrap() = Some(r);
            }));
        }
        let r = catch(|| (op.run)(&mut fdb)).map_err(|pn| Fail::new(format!("panic-on-fault:{kind}"), format!("{} panicked when VM step {k}/{s} was interrupted: {pn}", op.desc)))?;
        let fired = fh.fired.load(Ordering::Relaxed);
        let fcommits = fh.commits.load(Ordering::Relaxed);
        if fired {
            st.injected += 1;
            if fh.changes_at_fault.load(Ordering::Relaxed) > 0 {
                st.mid_write += 1;
            }
        }
        if let Some(sr) = snap_result.lock().unwrap().take() {
            match sr {
                Ok(d) => {
                    st.snapshots += 1;
                    let d = normalise(d);
                    if fh.commits_at_snapshot.load(Ordering::Relaxed) == 0 {
                        vensure!(d == *d0, format!("snapshot-sees-partial-state:{kind}"), "a second connection reading inside one transaction at writer step {}/{s} of {} (before any commit) saw a state that is not the pre-state: {}", k - 1, op.desc, diff_dump(d0, &d));
                    } else if ref_res.is_ok() && commits == 1 {
                        // the callback ran after the operation's one commit had completed (see `Hooks::commits_at_snapshot`)
                        st.snapshots_after_commit += 1;
                        vensure!(d == *dr, format!("snapshot-after-commit-sees-partial-state:{kind}"), "a second connection reading inside one transaction after the commit of {} (writer step {}/{s}) saw a state that is not the complete result: {}", op.desc, k - 1, diff_dump(dr, &d));
                    }
                }
                Err(_) => st.snapshot_busy += 1,
            }
        }
        // drop handlers' influence for the retry
        fh.fire_at.store(0, Ordering::Relaxed);
        fh.snapshot_at.store(0, Ordering::Relaxed);
        let df = {
            // read through a second connection; the wallet connection is idle now
            canon_dump_x(&p("flt"), op.randomized_raw).map_err(|e| Fail::new("harness-dump", e))?
        };
        match (&r, fired) {
            (Err(e), _) => {
                st.errs += 1;
                // (the commit hook counts commit ATTEMPTS: an interrupt delivered during the COMMIT statement
                // itself runs the hook and then rolls back, so the count is not asserted here; the dump is)
                let _ = fcommits;
                vensure!(df == *d0, format!("partial-state-after-error:{kind}"), "{}: fault at VM step {k}/{s} made it fail ({e}) but the database changed: {}", op.desc, diff_dump(d0, &df));
            }
            (Ok(_), true) => {
                st.swallowed += 1;
                vensure!(df == *dr, format!("ok-with-third-state:{kind}"), "{}: VM step {k}/{s} was interrupted, the operation still returned Ok, and the state is neither the pre-state nor the reference result: {}", op.desc, diff_dump(dr, &df));
            }
            (Ok(_), false) => {
                vensure!(df == *dr, format!("nondeterministic-operation:{kind}"), "{}: un-faulted run differs from the reference run: {}", op.desc, diff_dump(dr, &df));
            }
        }
        // retry on the same handle: must reach the reference outcome
        if r.is_err() && retry {
            let rr = catch(|| (op.run)(&mut fdb)).map_err(|pn| Fail::new(format!("panic-on-retry:{kind}"), format!("retry of {} panicked: {pn}", op.desc)))?;
            drop(fdb);
            let dretry = canon_dump_x(&p("flt"), op.randomized_raw).map_err(|e| Fail::new("harness-dump", e))?;
            match (ref_res, &rr) {
                (Ok(_), Ok(_)) => vensure!(dretry == *dr, format!("retry-differs:{kind}"), "{}: retry after a fault at step {k}/{s} does not reproduce the uninterrupted result: {}", op.desc, diff_dump(dr, &dretry)),
                (Ok(_), Err(e)) => vfail!(format!("retry-fails:{kind}"), "{}: retry after a fault at step {k}/{s} failed: {e}", op.desc),
                (Err(_), Err(_)) => vensure!(dretry == *d0, format!("retry-error-changed-db:{kind}"), "retry error changed db"),
                (Err(e), Ok(_)) => vfail!(format!("retry-succeeds-where-reference-failed:{kind}"), "{}: reference failed ({e}) but the retry succeeded", op.desc),
            }
        }
    }
    Ok(())
}

/// One "denied write" position: the `j`-th authorisation of a row write is refused (`Hooks::install_authorizer`), so
/// one statement of the operation fails while its transaction stays open. Same oracle as for an interrupted VM step.
fn denied_write_position(state_path: &Path, p: &dyn Fn(&str) -> PathBuf, op: &OpUnderTest, info: &RefInfo, j: u64, retry: bool, st: &mut PosStats) -> Result<(), Fail> {
    let kind = op.kind;
    let RefInfo { d0, dr, ref_res, write_auths, .. } = info;
    copy_db(state_path, &p("flt"));
    let (mut fdb, fh) = open_hooked(&p("flt"), false);
    fh.install_authorizer(&fdb);
    fh.deny_at.store(j, Ordering::Relaxed);
    let r = catch(|| (op.run)(&mut fdb)).map_err(|pn| Fail::new(format!("panic-on-denied-write:{kind}"), format!("{} panicked when write statement #{j}/{write_auths} failed: {pn}", op.desc)))?;
    fh.deny_at.store(0, Ordering::Relaxed);
    let denied = fh.denied.load(Ordering::Relaxed);
    if denied {
        st.denied += 1;
        if fh.changes_at_deny.load(Ordering::Relaxed) > 0 {
            st.denied_mid_write += 1;
        }
    }
    let df = canon_dump_x(&p("flt"), op.randomized_raw).map_err(|e| Fail::new("harness-dump", e))?;
    match (&r, denied) {
        (Err(e), _) => {
            st.denied_failed += 1;
            vensure!(df == *d0, format!("partial-state-after-failed-statement:{kind}"), "{}: write statement #{j}/{write_auths} was made to fail (SQLITE_AUTH), the operation failed ({e}), but the database changed: {}", op.desc, diff_dump(d0, &df));
        }
        (Ok(_), true) => {
            vensure!(df == *dr, format!("ok-with-third-state-after-failed-statement:{kind}"), "{}: write statement #{j}/{write_auths} was made to fail (SQLITE_AUTH), the operation still returned Ok, and the state is neither the pre-state nor the reference result: {}", op.desc, diff_dump(dr, &df));
        }
        (Ok(_), false) => {
            vensure!(df == *dr, format!("nondeterministic-operation:{kind}"), "{}: run without a fault differs from the reference run: {}", op.desc, diff_dump(dr, &df));
        }
    }
    if r.is_err() && retry {
        let rr = catch(|| (op.run)(&mut fdb)).map_err(|pn| Fail::new(format!("panic-on-retry:{kind}"), format!("retry of {} panicked: {pn}", op.desc)))?;
        drop(fdb);
        let dretry = canon_dump_x(&p("flt"), op.randomized_raw).map_err(|e| Fail::new("harness-dump", e))?;
        match (ref_res, &rr) {
            (Ok(_), Ok(_)) => vensure!(dretry == *dr, format!("retry-differs:{kind}"), "{}: retry after failed write statement #{j} does not reproduce the uninterrupted result: {}", op.desc, diff_dump(dr, &dretry)),
            (Ok(_), Err(e)) => vfail!(format!("retry-fails:{kind}"), "{}: retry after failed write statement #{j} failed: {e}", op.desc),
            (Err(_), Err(_)) => vensure!(dretry == *d0, format!("retry-error-changed-db:{kind}"), "retry error changed db"),
            (Err(e), Ok(_)) => vfail!(format!("retry-succeeds-where-reference-failed:{kind}"), "{}: reference failed ({e}) but the retry succeeded", op.desc),
        }
    }
    Ok(())
}

fn run_case(ctx: &Ctx, case: &C02Case) -> CaseResult {
    let Some((h, mut oc)) = build_state(case)? else {
        return Ok(Obs::trivial().label("excluded-known:stale-annotation-after-reorg"));
    };
    let Hist { world, chain, w, .. } = h;
    oc.world = world;
    oc.chain = chain;
    let state_path = PathBuf::from(w.conn().path().expect("file-backed wallet").to_string());
    let dir = state_path.parent().unwrap().to_path_buf();
    let stem = state_path.file_name().unwrap().to_string_lossy().to_string();
    let p = |tag: &str| dir.join(format!("{stem}.{tag}"));
    let _cleanup = TempFiles(vec![p("ref"), p("flt"), p("crash"), p("veto"), p("snap")]);
    let kind = op_kind(&case.op);
    let dense = ctx.tier == vcore::Tier::Thorough;
    let run = |conn: &mut Connection| run_op(conn, &case.op, &oc);
    // failed-statement faults (a write statement refused by the authorizer) are enumerated for the pool-migration store's
    // operations: nothing in the store is entitled to ignore a failed statement
    let is_store_op = matches!(case.op, WOp::Mig(_));
    let op = OpUnderTest { kind, desc: format!("{:?}", case.op), run: &run, randomized_raw: false, log_statements: false, count_write_auths: is_store_op };

    let info = reference_checks(&state_path, &p, &op)?;
    // ---- fault enumeration (writer-side snapshot before every 4th position) ----------------------------
    let mut st = PosStats::default();
    for (pi, k) in positions(info.s, &case.pos_sel, dense).iter().enumerate() {
        fault_position(&state_path, &p, &op, &info, *k, pi % 4 == 0, true, &mut st)?;
    }
    // ---- failed write statements: all if there are at most 8 (thorough: 48), else the first and last 2 + generated ones
    if is_store_op && info.write_auths > 0 {
        let w = info.write_auths;
        let budget = if dense { 48 } else { 8 };
        let js: std::collections::BTreeSet<u64> = if w <= budget {
            (1..=w).collect()
        } else {
            [1, 2, w - 1, w].into_iter().chain(case.pos_sel.iter().cycle().take(budget as usize - 4).enumerate().map(|(i, x)| 1 + (((*x as u64).wrapping_add(i as u64 * 0x9e37_79b9) % (1 << 32)) * w >> 32))).collect()
        };
        for j in js {
            denied_write_position(&state_path, &p, &op, &info, j, true, &mut st)?;
        }
    }
    let RefInfo { d0, dr, ref_res, s, changed, crash_checked, veto_checked, .. } = info;
    let PosStats { injected, errs, swallowed, mid_write, snapshots, snapshots_after_commit, snapshot_busy, denied, denied_mid_write, denied_failed } = st;

    // (a batch lock aimed at a conflict is non-trivial when the reference run fails after locking its first outputs)
    let nontrivial = (changed >= 2 && mid_write > 0) || (case.pre_lock_aimed && ref_res.is_err() && s > 0);
    // generator health of the pool-migration part
    let is_mig_table = |t: &str| migration::MIGRATION_TABLES.contains(&t);
    let differs = |t: &String| d0.get(t) != dr.get(t);
    let mig_rows_changed = d0.keys().filter(|t| is_mig_table(t)).any(differs);
    let wallet_rows_changed = d0.keys().filter(|t| !is_mig_table(t)).any(differs);
    let is_mig_op = matches!(case.op, WOp::Mig(_));
    let n_migrations = d0.get("orchard_ironwood_migrations").map_or(0, |r| r.len());
    let idle = matches!(&ref_res, Ok(m) if m == "no-pending-migration" || m == "no-transactions");
    Ok(Obs::new(nontrivial)
        .label(kind)
        .label_if(is_mig_op && matches!(case.op, WOp::Mig(MigOp::Mutate { .. })), "op:mig.read-mutate-persist(any)")
        .label_if(is_mig_op && idle, "mig-op-without-pending-migration")
        .label_if(is_mig_op && mig_rows_changed, "mig-op-changes-migration-rows")
        .label_if(is_mig_op && mig_rows_changed && wallet_rows_changed, "mig-op-changes-migration-and-wallet-tables")
        .label_if(!is_mig_op && mig_rows_changed, "wallet-op-changes-migration-rows")
        .label_if(!is_mig_op && mig_rows_changed && mid_write > 0, "wallet-op-changes-migration-rows+fault-between-writes")
        .label_if(n_migrations == 1, "state:1-migration")
        .label_if(n_migrations >= 2, "state:2-migrations")
        .label_if(ref_res.is_err(), "reference-errs")
        .label_if(changed >= 2, "multi-row-change")
        .label_if(mid_write > 0, "fault-between-writes")
        .label_if(swallowed > 0, "interrupt-swallowed-ok")
        .count("vm-steps", s)
        .count("positions-injected", injected)
        .count("faulted-runs-failed", errs)
        .count("faults-after-first-write", mid_write)
        .count("write-statements-made-to-fail", denied)
        .count("write-statements-made-to-fail-after-first-write", denied_mid_write)
        .count("failed-statement-runs-failed", denied_failed)
        .count("snapshots-compared", snapshots)
        .count("snapshots-after-commit", snapshots_after_commit)
        .count("snapshots-busy", snapshot_busy)
        .count("commit-vetoes", veto_checked)
        .count("crash-copies-recovered", crash_checked)
        .count("rows-changed-by-reference", changed as u64))
}

// ------------------------------------------------------------------------------------------------
// reader side: get_wallet_summary must be a snapshot while a write commits concurrently (WAL)
// ------------------------------------------------------------------------------------------------

fn summary_of(conn: &Connection, world: &World) -> Result<String, String> {
    let db = WalletDb::from_connection(conn, world.net, migration::clock(), ChaChaRng::from_seed([9; 32]));
    let s = db.get_wallet_summary(ConfirmationsPolicy::MIN).map_err(|e| format!("{e:?}"))?;
    Ok(match s {
        None => "none".to_string(),
        Some(s) => {
            let mut rows: Vec<String> = s
                .account_balances()
                .iter()
                .map(|(_, b)| {
                    format!(
                        "sap {:?}/{:?} orc {:?}/{:?} iw {:?}/{:?}",
                        b.sapling_balance().total(),
                        b.sapling_balance().uneconomic_value(),
                        b.orchard_balance().total(),
                        b.orchard_balance().uneconomic_value(),
                        b.ironwood_balance().total(),
                        b.ironwood_balance().uneconomic_value()
                    )
                })
                .collect();
            rows.sort();
            format!("tip {:?} fully {:?} {rows:?}", s.chain_tip_height(), s.fully_scanned_height())
        }
    })
}

fn run_reader_case(case: &C02Case) -> CaseResult {
    // only write ops that change balances matter here
    if !matches!(case.op, WOp::Scan { .. } | WOp::Truncate { .. } | WOp::DeleteAccount { .. } | WOp::UpdateTip { .. } | WOp::RewindToChainState { .. } | WOp::TruncateToChainState { .. } | WOp::StoreDecrypted { .. }) {
        return Ok(Obs::trivial().label("op-not-relevant"));
    }
    let Some((h, mut oc)) = build_state(case)? else {
        return Ok(Obs::trivial().label("excluded-known:stale-annotation-after-reorg"));
    };
    let Hist { world, chain, w, .. } = h;
    oc.world = world;
    oc.chain = chain;
    let oc = Arc::new(oc);
    let state_path = PathBuf::from(w.conn().path().expect("file-backed wallet").to_string());
    let dir = state_path.parent().unwrap().to_path_buf();
    let stem = state_path.file_name().unwrap().to_string_lossy().to_string();
    let p = |tag: &str| dir.join(format!("{stem}.{tag}"));
    let _cleanup = TempFiles(vec![p("rd"), p("rd0"), p("rd1")]);
    let kind = op_kind(&case.op);

    // summaries of the pre-state and the post-state
    copy_db(&state_path, &p("rd0"));
    let (db0, _h0) = open_hooked(&p("rd0"), true);
    let s0 = summary_of(&db0, &oc.world).map_err(|e| Fail::new("summary-error", e))?;
    let steps_ref = _h0.steps.load(Ordering::Relaxed);
    drop(db0);
    copy_db(&state_path, &p("rd1"));
    let (mut db1, _h1) = open_hooked(&p("rd1"), true);
    let wres = run_op(&mut db1, &case.op, &oc);
    let s1 = summary_of(&db1, &oc.world).map_err(|e| Fail::new("summary-error", e))?;
    drop(db1);
    if wres.is_err() || s0 == s1 || steps_ref < 4 {
        return Ok(Obs::trivial().label("write-does-not-change-summary"));
    }

    let mut compared = 0u64;
    let mut busy = 0u64;
    let pos = positions(steps_ref, &case.pos_sel[..4], false);
    for k in pos {
        copy_db(&state_path, &p("rd"));
        {
            // switch the copy to WAL before the two handles open it
            let c = Connection::open(p("rd")).map_err(|e| Fail::new("harness-open", e.to_string()))?;
            c.pragma_update(None, "journal_mode", "WAL").map_err(|e| Fail::new("harness-wal", e.to_string()))?;
        }
        let (reader, rh) = open_hooked(&p("rd"), true);
        let (writer, _wh) = open_hooked(&p("rd"), true);
        let writer = Arc::new(Mutex::new(Some(writer)));
        let wres: Arc<Mutex<Option<Result<String, String>>>> = Arc::new(Mutex::new(None));
        {
            let writer = writer.clone();
            let wres = wres.clone();
            let oc = oc.clone();
            let op = case.op.clone();
            rh.snapshot_at.store(k, Ordering::Relaxed);
            *rh.snapshot.lock().unwrap() = Some(Box::new(move || {
                if let Some(mut wdb) = writer.lock().unwrap().take() {
                    let r = catch(|| run_op(&mut wdb, &op, &oc)).unwrap_or_else(|p| Err(format!("panic: {p}")));
                    *wres.lock().unwrap() = Some(r);
                }
            }));
        }
        let got = summary_of(&reader, &oc.world);
        let wr = wres.lock().unwrap().take();
        match (got, wr) {
            (Ok(g), Some(Ok(_))) => {
                compared += 1;
                vensure!(
                    g == s0 || g == s1,
                    format!("summary-mixes-states:{kind}"),
                    "get_wallet_summary, with {:?} committing on another connection at reader step {k}/{steps_ref}, returned {g} which is neither the pre-state summary {s0} nor the post-state summary {s1}",
                    case.op
                );
            }
            (Ok(_), Some(Err(_))) | (Err(_), _) => busy += 1,
            (Ok(g), None) => {
                // the reader finished before step k
                vensure!(g == s0, format!("summary-nondeterministic:{kind}"), "summary without interleaving differs from the pre-state summary");
            }
        }
    }
    Ok(Obs::new(compared > 0).label(kind).count("reader-interleavings-compared", compared).count("reader-interleavings-busy", busy))
}

// ------------------------------------------------------------------------------------------------
// reader side, migration oracles: check_step_satisfiability / mined_height (own read transaction) and the state
// reads inside a caller-opened transaction must be snapshots while a write commits concurrently (WAL)
// ------------------------------------------------------------------------------------------------

#[derive(Clone, Copy, Debug, PartialEq, Eq)]
enum When {
    Never,
    BeforeFirstRead,
    AtReaderStep(u64),
}

struct MigReaderRun {
    outcomes: Vec<migration::ReadOutcome>,
    /// result of the write, if it ran
    write: Option<Result<String, String>>,
}

fn mig_reader_run(state_path: &Path, work: &Path, oc: &Arc<OpCtx>, op: &WOp, plan: &migration::ReadPlan, when: When) -> Result<MigReaderRun, Fail> {
    copy_db(state_path, work);
    {
        // switch the copy to WAL before the two handles open it
        let c = Connection::open(work).map_err(|e| Fail::new("harness-open", e.to_string()))?;
        c.pragma_update(None, "journal_mode", "WAL").map_err(|e| Fail::new("harness-wal", e.to_string()))?;
    }
    let (reader, rh) = open_hooked(work, true);
    let (mut writer, _wh) = open_hooked(work, true);
    let written = Arc::new(AtomicBool::new(false));
    let wres: Arc<Mutex<Option<Result<String, String>>>> = Arc::new(Mutex::new(None));
    match when {
        When::Never => drop(writer),
        When::BeforeFirstRead => {
            let r = catch(|| run_op(&mut writer, op, oc)).unwrap_or_else(|p| Err(format!("panic: {p}")));
            written.store(r.is_ok(), Ordering::SeqCst);
            *wres.lock().unwrap() = Some(r);
            drop(writer);
        }
        When::AtReaderStep(k) => {
            let writer = Arc::new(Mutex::new(Some(writer)));
            let (wres, oc, op, written) = (wres.clone(), oc.clone(), op.clone(), written.clone());
            *rh.snapshot.lock().unwrap() = Some(Box::new(move || {
                if let Some(mut wconn) = writer.lock().unwrap().take() {
                    let r = catch(|| run_op(&mut wconn, &op, &oc)).unwrap_or_else(|p| Err(format!("panic: {p}")));
                    written.store(r.is_ok(), Ordering::SeqCst);
                    *wres.lock().unwrap() = Some(r);
                }
            }));
            rh.steps.store(0, Ordering::Relaxed);
            rh.snapshot_at.store(k, Ordering::Relaxed);
        }
    }
    // (reader steps are counted from the first read on)
    if !matches!(when, When::AtReaderStep(_)) {
        rh.steps.store(0, Ordering::Relaxed);
    }
    let steps = rh.steps.clone();
    let outcomes = migration::run_reads(&reader, plan, &oc.menv, &written, &move || steps.load(Ordering::Relaxed));
    rh.snapshot_at.store(0, Ordering::Relaxed);
    *rh.snapshot.lock().unwrap() = None;
    let write = wres.lock().unwrap().take();
    Ok(MigReaderRun { outcomes, write })
}

fn run_mig_reader_case(case: &C02Case) -> CaseResult {
    let Some((h, mut oc)) = build_state(case)? else {
        return Ok(Obs::trivial().label("excluded-known:stale-annotation-after-reorg"));
    };
    let Hist { world, chain, w, .. } = h;
    oc.world = world;
    oc.chain = chain;
    let oc = Arc::new(oc);
    let state_path = PathBuf::from(w.conn().path().expect("file-backed wallet").to_string());
    let dir = state_path.parent().unwrap().to_path_buf();
    let stem = state_path.file_name().unwrap().to_string_lossy().to_string();
    let work = dir.join(format!("{stem}.mrd"));
    let _cleanup = TempFiles(vec![work.clone()]);
    let kind = op_kind(&case.op);

    // what the oracle is asked: the transactions of a migration generated for an account that (mostly) has one
    let probe = case.mig.probe.as_ref().expect("reader case carries a probe migration");
    let ai = oc.menv.account_index(probe.salt);
    let (pstate, _) = migration::build_migration(probe, &oc.menv, ai);
    let probes: Vec<_> = pstate.transactions().iter().take(4).cloned().collect();
    let txids: Vec<[u8; 32]> = probes.iter().take(3).map(|t| *t.txid().as_ref()).collect();
    let plan = migration::ReadPlan { acct: ai, probes, txids, settle: case.mig.settle as u32 };
    let call_kind = |i: usize| {
        if i < plan.probes.len() {
            "check_step_satisfiability"
        } else if i < plan.probes.len() + plan.txids.len() {
            "mined_height"
        } else {
            "state-reads-in-caller-transaction"
        }
    };

    // the two references: every read before the write / every read after it
    let pre = mig_reader_run(&state_path, &work, &oc, &case.op, &plan, When::Never)?;
    let post = mig_reader_run(&state_path, &work, &oc, &case.op, &plan, When::BeforeFirstRead)?;
    if !matches!(post.write, Some(Ok(_))) {
        return Ok(Obs::trivial().label("write-fails"));
    }
    vensure!(pre.outcomes.len() == post.outcomes.len() && pre.outcomes.len() == plan.probes.len() + plan.txids.len() + 1, "harness-reader-shape", "reader made {} / {} calls", pre.outcomes.len(), post.outcomes.len());
    let differing: Vec<usize> = (0..pre.outcomes.len()).filter(|i| pre.outcomes[*i].value != post.outcomes[*i].value).collect();
    if differing.is_empty() {
        return Ok(Obs::trivial().label("write-does-not-change-oracle-answers").label(kind));
    }
    // reader steps inside the calls whose answer the write changes
    let mut pos = std::collections::BTreeSet::new();
    for (n, i) in differing.iter().enumerate() {
        let (s0, s1) = pre.outcomes[*i].step_range;
        let len = s1.saturating_sub(s0);
        if len == 0 {
            continue;
        }
        let sel = case.pos_sel[(2 * n) % case.pos_sel.len()..].iter().take(2);
        if len <= 14 {
            pos.extend(s0 + 1..=s1);
        } else {
            for k in 1..=3 {
                pos.insert(s0 + k);
                pos.insert(s1 + 1 - k);
            }
            for j in 1..=8 {
                pos.insert(s0 + (len * j / 9).max(1));
            }
            for x in sel {
                pos.insert(s0 + 1 + ((*x as u64 * len) >> 32));
            }
        }
    }
    let pos: Vec<u64> = pos.into_iter().take(44).collect();

    let (mut compared, mut busy, mut calls_checked) = (0u64, 0u64, 0u64);
    for k in pos {
        let run = mig_reader_run(&state_path, &work, &oc, &case.op, &plan, When::AtReaderStep(k))?;
        match &run.write {
            Some(Ok(_)) => {}
            Some(Err(_)) => {
                busy += 1;
                continue;
            }
            None => {} // the reads ended before step k: every answer must be the pre-state answer (checked below)
        }
        vensure!(run.outcomes.len() == pre.outcomes.len(), "harness-reader-shape", "interleaved reader made {} calls, reference {}", run.outcomes.len(), pre.outcomes.len());
        for (i, o) in run.outcomes.iter().enumerate() {
            let (a, b) = (&pre.outcomes[i].value, &post.outcomes[i].value);
            calls_checked += 1;
            if !o.write_after {
                vensure!(o.value == *a, format!("migration-oracle-nondeterministic:{}", call_kind(i)), "{} call #{i} before the concurrent write returned {} but {} on the untouched pre-state", call_kind(i), o.value, a);
            } else if o.write_before {
                vensure!(
                    o.value == *b,
                    format!("migration-oracle-after-write-differs:{}:{kind}", call_kind(i)),
                    "{} call #{i} started after {:?} had committed on another connection and returned {}, but the same call after the same write returns {b}",
                    call_kind(i),
                    case.op,
                    o.value
                );
            } else {
                vensure!(
                    o.value == *a || o.value == *b,
                    format!("migration-oracle-mixes-states:{}:{kind}", call_kind(i)),
                    "{} (call #{i}, account #{ai}), with {:?} committing on another connection at reader step {k}, returned {} which is neither the answer entirely before the write ({a}) nor the answer entirely after it ({b})",
                    call_kind(i),
                    case.op,
                    o.value
                );
                if a != b {
                    compared += 1;
                }
            }
        }
    }
    let d = |k: &str| differing.iter().any(|i| call_kind(*i) == k);
    Ok(Obs::new(compared > 0)
        .label(kind)
        .label_if(d("check_step_satisfiability"), "write-changes:check_step_satisfiability")
        .label_if(d("mined_height"), "write-changes:mined_height")
        .label_if(d("state-reads-in-caller-transaction"), "write-changes:migration-state-reads")
        .count("reader-interleavings-compared", compared)
        .count("reader-interleavings-busy", busy)
        .count("oracle-calls-checked", calls_checked))
}

// ------------------------------------------------------------------------------------------------
// take_transaction_for_broadcast on a really proved migration transaction (one fixture per process)
// ------------------------------------------------------------------------------------------------

const REAL_PROOF_SUB: &str = "take-for-broadcast-real-proof";

/// Enumerated: index 0 = reference run, commit count, crash copy, vetoed commit; index i >= 1 = the i-th fault position
/// (with a second-connection snapshot before it). Every evaluation works on its own copy of the fixture database.
fn run_real_proof_subcheck(ctx: &Arc<Ctx>) {
    use migration::real_proof;
    let kind = "op:mig.take_transaction_for_broadcast(proved)";
    let fx = match real_proof::fixture() {
        Ok(f) => f,
        Err(e) => {
            // not a C02 question: the prove pipeline could not produce the state. Reported as a generator-health miss.
            println!("NOTE: the real-proof fixture could not be built: {e}");
            ctx.run_enum(REAL_PROOF_SUB, 1, true, |_| Ok(Obs::trivial().label("fixture-unavailable")), |_| "fixture".to_string());
            ctx.require_min_count(REAL_PROOF_SUB, "positions-injected", 1);
            return;
        }
    };
    let run = |conn: &mut Connection| real_proof::take(conn, fx);
    let desc = format!("take_transaction_for_broadcast(state, {:?}) on a migration whose preparation {:?} is really proved", fx.proved, fx.proved);
    let dir = fx.path.parent().unwrap().to_path_buf();
    let stem = fx.path.file_name().unwrap().to_string_lossy().to_string();
    let files = |i: u64| {
        let (dir, stem) = (dir.clone(), stem.clone());
        move |tag: &str| dir.join(format!("{stem}.{i}.{tag}"))
    };
    // the reference information every position needs (and the number of positions) is computed once, up front; index 0
    // repeats it so that a failure in it is reported through the ordinary channel
    let pre = {
        let p = files(u64::MAX);
        let _cleanup = TempFiles(vec![p("ref"), p("crash"), p("veto")]);
        reference_checks(&fx.path, &p, &OpUnderTest { kind, desc: desc.clone(), run: &run, randomized_raw: true, log_statements: true, count_write_auths: true })
    };
    let dense = ctx.tier == vcore::Tier::Thorough;
    // Positions. This sub-check has ONE (state, operation) pair, so nothing averages out over cases: besides a thinned
    // generic sample, one fault is aimed at the middle of (quick: every second; thorough: every) run of VM steps during
    // which a writing statement was executing, so that every INSERT / UPDATE / DELETE of the operation is made to fail.
    // Each evaluation builds the Orchard verifying key and re-verifies a 16-action proof twice (seconds of CPU).
    let (pos, write_segments): (Vec<u64>, u64) = match &pre {
        Ok(info) => {
            let mut set: std::collections::BTreeSet<u64> = positions(info.s, &[0x1357_9bdf, 0x2468_ace0, 0x0f0f_0f0f, 0xf0f0_f0f0, 0x7fff_ffff, 0x8000_0001], dense).into_iter().step_by(if dense { 3 } else { 12 }).collect();
            let ws: Vec<&Segment> = info.segments.iter().filter(|g| g.writes).collect();
            // (quick: every fourth one, rotating with the run seed)
            for g in ws.iter().skip(if dense { 0 } else { (ctx.seed % 4) as usize }).step_by(if dense { 1 } else { 4 }) {
                set.insert((g.first + g.last) / 2);
            }
            (set.into_iter().collect(), ws.len() as u64)
        }
        Err(_) => (vec![], 0),
    };
    // failed write statements: every one of them (quick: every fifth one, rotating with the run seed, plus the last two)
    let deny: Vec<u64> = match &pre {
        Ok(info) => {
            let w = info.write_auths;
            let mut set: std::collections::BTreeSet<u64> = (1..=w).skip(if dense { 0 } else { (ctx.seed % 5) as usize }).step_by(if dense { 1 } else { 5 }).collect();
            set.extend([w.saturating_sub(1).max(1), w.max(1)]);
            if w == 0 {
                set.clear();
            }
            set.into_iter().collect()
        }
        Err(_) => vec![],
    };
    let n = 1 + pos.len() as u64 + deny.len() as u64;
    ctx.run_enum(
        REAL_PROOF_SUB,
        n,
        false, // the positions are a sample of the operation's VM steps
        |i| {
            let p = files(i);
            let _cleanup = TempFiles(vec![p("ref"), p("flt"), p("crash"), p("veto")]);
            let op = OpUnderTest { kind, desc: desc.clone(), run: &run, randomized_raw: true, log_statements: false, count_write_auths: i == 0 };
            if i == 0 {
                let info = reference_checks(&fx.path, &p, &op)?;
                vensure!(info.ref_res.is_ok(), "harness-real-proof-take-fails", "take_transaction_for_broadcast on the fixture failed: {:?}", info.ref_res);
                let wallet_tables_changed = info.d0.iter().any(|(t, rows)| !migration::MIGRATION_TABLES.contains(&t.as_str()) && info.dr.get(t) != Some(rows));
                let mig_tables_changed = info.d0.iter().any(|(t, rows)| migration::MIGRATION_TABLES.contains(&t.as_str()) && info.dr.get(t) != Some(rows));
                return Ok(Obs::new(info.changed >= 2)
                    .label(kind)
                    .label_if(wallet_tables_changed, "take-writes-wallet-tables")
                    // (the migration rows are rewritten with the very state they hold, so they rarely differ afterwards)
                    .label_if(mig_tables_changed, "take-changes-migration-tables")
                    .count("vm-steps", info.s)
                    .count("write-statement-segments", write_segments)
                    .count("write-authorisations", info.write_auths)
                    .count("commit-vetoes", info.veto_checked)
                    .count("crash-copies-recovered", info.crash_checked)
                    .count("rows-changed-by-reference", info.changed as u64));
            }
            let info = pre.as_ref().map_err(|f| Fail::new(f.signature.clone(), f.msg.clone()))?;
            let mut st = PosStats::default();
            let i = i as usize - 1;
            // the retry after the failure doubles an evaluation's cost (a second extraction): quick retries after every
            // fourth position
            let retry = dense || i % 4 == 0;
            if i < pos.len() {
                fault_position(&fx.path, &p, &op, info, pos[i], true, retry, &mut st)?;
            } else {
                denied_write_position(&fx.path, &p, &op, info, deny[i - pos.len()], retry, &mut st)?;
            }
            Ok(Obs::new(st.mid_write > 0 || st.denied_mid_write > 0)
                .label_if(st.denied_mid_write > 0, "failed-statement-between-writes")
                .count("write-statements-made-to-fail", st.denied)
                .count("write-statements-made-to-fail-after-first-write", st.denied_mid_write)
                .count("failed-statement-runs-failed", st.denied_failed)
                .label_if(st.mid_write > 0, "fault-between-writes")
                .label_if(st.swallowed > 0, "interrupt-swallowed-ok")
                .count("positions-injected", st.injected)
                .count("faulted-runs-failed", st.errs)
                .count("faults-after-first-write", st.mid_write)
                .count("snapshots-compared", st.snapshots)
                .count("snapshots-after-commit", st.snapshots_after_commit)
                .count("snapshots-busy", st.snapshot_busy))
        },
        |i| {
            if i == 0 {
                "reference run, crash copy, vetoed commit".to_string()
            } else if (i as usize) <= pos.len() {
                format!("interrupt at VM step {}", pos[i as usize - 1])
            } else {
                format!("failed write statement #{}", deny[i as usize - 1 - pos.len()])
            }
        },
    );
    ctx.extra("real_proof_fixture", serde_json::json!({ "scenario": "single minimum-denomination note; first preparation proved", "build_seconds": fx.build_seconds }));
    ctx.require_min_count(REAL_PROOF_SUB, "take-writes-wallet-tables", 1);
    ctx.require_min_count(REAL_PROOF_SUB, "faults-after-first-write", ctx.tier.pick(3, 20));
    ctx.require_min_count(REAL_PROOF_SUB, "write-statements-made-to-fail-after-first-write", ctx.tier.pick(5, 30));
    real_proof::cleanup();
}

fn main() {
    chainsim::init_sqlite();
    let ctx = Ctx::from_args("C02", "fault_enumeration");
    ctx.set_rule(
        "proptest (state, operation) pairs: state = generated wallet history on a file-backed wallet (+ unscanned blocks, optional existing lock); operation = one of \
         put_blocks (scan_cached_blocks of 1..40 blocks), store_decrypted_tx and store_transactions_to_be_sent (transparent-only transactions), update_chain_tip, truncate_to_height, truncate_to_chain_state, rewind_to_chain_state, create_account, import_account_ufvk, delete_account, lock_outputs, unlock_output, \
         clear_locked_outputs, queue_rescans, set_transaction_status, prune_scan_queue_below. Per pair: reference run (VM steps S, commits C), enumerated interrupt positions \
         (all if S <= 48, else first/last 6 + 26 evenly spaced + 12 generated; thorough: 400 / 300), vetoed commit, crash copy at the commit hook, second-connection snapshot \
         before every 4th position, retry after every failure. reader-snapshot: get_wallet_summary on one WAL connection while the write commits on another at sampled reader \
         steps. Non-trivial = reference changes >= 2 rows and at least one fault landed after the operation's first row change, or (lock-batch-conflict) the reference run of the aimed batch fails; distinct = hash of the case. \
         migration-fault-enumeration: the same per-pair procedure; state = such a wallet (three times out of four with 1-3 blocks of Orchard receipts in front of the history, \
         three times out of four fully scanned below the unscanned blocks) holding 0-2 persisted pool migrations (generated MigrationState values: 0-2 preparation layers, 1-4 \
         transfers, stages planned / partly broadcast / partly mined / complete / failed / superseded / cancelled, heights relative to the wallet's tip and fully-scanned height, \
         nullifier caches and txids mostly those of the account's real Orchard notes and transactions, notes reserved under the lock-owner tokens) for 1-2 accounts; operation = \
         one of the SQLite pool-migration store's replace_migration, get_migration + one MigrationState mutator (mark_broadcast, report_broadcast_failure, mark_mined, \
         mark_superseded, mark_cancelled, apply_signature, truncate_to_height) + replace_migration, update_transaction, cancel_migration, store_proved_transaction, \
         take_transaction_for_broadcast (on a PCZT without proofs), one advance_migration call over the store and its oracle, or the wallet's truncate_to_height / \
         truncate_to_chain_state / rewind_to_chain_state / delete_account / put_blocks; one case in seven is aimed at the release of note reservations (cancel / supersede with \
         every transaction proved and holding a token). reader-snapshot-migration: check_step_satisfiability for up to 4 generated transactions, mined_height for up to 3 txids and \
         (inside one caller-opened transaction) get_migration + latest_migration + list_migrations on one WAL connection while a put_blocks / truncation / rewind / \
         set_transaction_status / store write commits on another at sampled reader steps inside the calls whose answer the write changes; non-trivial = at least one such call \
         was compared. For the store's own operations a second fault kind is enumerated besides the interrupted VM step: the j-th authorisation of a row write (INSERT / UPDATE / \
         DELETE, asked by SQLite while the statement is compiled) is refused, so that one statement fails with SQLITE_AUTH while its transaction stays open (all j if there are at \
         most 8, else the first and last two + generated ones; thorough 48). take-for-broadcast-real-proof (enumeration over fault positions of ONE pair): state = an NU6.3 wallet \
         with a committed migration whose first preparation transaction carries a real 16-action Orchard proof (built once per process with the repository's own test pipeline); \
         operation = take_transaction_for_broadcast; index 0 = reference run + crash copy + vetoed commit, the other indices = one interrupt each (a thinned generic sample of VM \
         steps + the middle of the runs of steps during which a writing statement executed; quick: every fourth such run, rotating with the seed) or one failed write statement \
         each (quick: every fifth, rotating with the seed, + the last two).",
    );
    ctx.assume("SQLITE_INTERRUPT injected through the progress handler stands for any failure that aborts the statement AND rolls the enclosing transaction back (I/O error, full disk); a write statement refused by the authorizer (SQLITE_AUTH at prepare; pool-migration store operations only) stands for a failure of one statement that leaves the transaction open (constraint violation, conversion error); torn pages / fsync ordering inside SQLite's commit are SQLite's contract and are not simulated");
    ctx.assume("take_transaction_for_broadcast extracts the transaction with a binding signature whose randomness comes from the OS, so transactions.raw is compared by length in that sub-check (the txid and every other column are compared exactly)");
    ctx.assume("account UUIDs and pool-migration record UUIDs (OS randomness) are normalised in dumps; everything else is deterministic (FixedClock, seeded ChaCha)");
    ctx.assume("advance_migration performs at most one store write per call (rustdoc: the state is written back with replace_migration before the step is returned, nothing is written when nothing was discovered), so the one-commit rule applies to it unchanged; a commit that changed no row (an autocommit statement that matched nothing) counts as leaving the database as it was");
    ctx.assume("get_migration / latest_migration / list_migrations are not documented as snapshots; they are read inside a caller-opened transaction (AGENTS.md, Database Write Atomicity), and a store handle's account row is resolved when the handle is created");
    let tier = ctx.tier;
    // debugging aid (mutant calibration): VERIF_C02_ONLY=sub1,sub2 runs only those sub-checks
    let only: Option<Vec<String>> = std::env::var("VERIF_C02_ONLY").ok().map(|v| v.split(',').map(|x| x.trim().to_string()).collect());
    let want = |sub: &str| only.as_ref().map_or(true, |o| o.iter().any(|x| x == sub));
    if let Some(o) = &only {
        println!("NOTE: VERIF_C02_ONLY is set: only the sub-checks {o:?} run; this is NOT a full C02 run");
    }
    // the real-proof fixture (one 16-action Orchard proof) is built in the background while the other sub-checks run
    let warm = (want(REAL_PROOF_SUB) && (!ctx.is_replay() || ctx.wants(REAL_PROOF_SUB))).then(|| std::thread::spawn(|| migration::real_proof::fixture().is_ok()));
    if want("fault-enumeration") {
        let c2 = ctx.clone();
        ctx.run_prop_with("fault-enumeration", arb_c02_case, tier.pick(128, 3_000), 20, move |c| run_case(&c2, c));
        ctx.require_min_count("fault-enumeration", "op:put_blocks", 6);
        ctx.require_min_count("fault-enumeration", "faults-after-first-write", 200);
    }
    if want("lock-batch-conflict") {
        let c3 = ctx.clone();
        ctx.run_prop_with("lock-batch-conflict", arb_c02_lock_case, tier.pick(64, 1_000), 20, move |c| run_case(&c3, c));
        ctx.require_min_count("lock-batch-conflict", "reference-errs", 8);
    }
    if want("reader-snapshot") {
        ctx.run_prop_with("reader-snapshot", arb_c02_case, tier.pick(96, 2_000), 20, run_reader_case);
        ctx.require_min_count("reader-snapshot", "reader-interleavings-compared", 30);
    }
    // ---- pool-migration store ----------------------------------------------------------------------------------
    if want("migration-fault-enumeration") {
        let c4 = ctx.clone();
        ctx.run_prop_with("migration-fault-enumeration", || prop_oneof![6 => arb_c02_mig_case().boxed(), 1 => arb_c02_release_case().boxed()], tier.pick(160, 400), 20, move |c| run_case(&c4, c));
        // generator health: quick-tier minima at no more than half of the smallest count measured over seeds 1..5,
        // 987654321 and 2^64-59 (thorough: 2.5 times the cases, dense positions)
        for (label, min) in [
            ("op:mig.replace_migration", 5),
            ("op:mig.read-mutate-persist(any)", 12),
            ("op:mig.update_transaction", 2),
            ("op:mig.cancel_migration", 6),
            ("op:mig.store_proved_transaction", 2),
            ("op:mig.advance_migration", 5),
            ("op:truncate_to_height", 3),
            ("mig-op-changes-migration-rows", 25),
            ("mig-op-changes-migration-and-wallet-tables", 3),
            ("wallet-op-changes-migration-rows+fault-between-writes", 3),
            ("state:2-migrations", 25),
            ("faults-after-first-write", 500),
            ("write-statements-made-to-fail-after-first-write", 100),
        ] {
            ctx.require_min_count("migration-fault-enumeration", label, tier.pick(min, min * 2));
        }
    }
    if want("reader-snapshot-migration") {
        ctx.run_prop_with("reader-snapshot-migration", arb_c02_mig_reader_case, tier.pick(96, 1_000), 20, run_mig_reader_case);
        ctx.require_min_count("reader-snapshot-migration", "reader-interleavings-compared", tier.pick(400, 4_000));
        ctx.require_min_count("reader-snapshot-migration", "write-changes:check_step_satisfiability", tier.pick(12, 120));
        ctx.require_min_count("reader-snapshot-migration", "write-changes:migration-state-reads", tier.pick(4, 40));
    }
    if want(REAL_PROOF_SUB) && ctx.wants(REAL_PROOF_SUB) && !(ctx.violated() && !ctx.is_replay()) {
        run_real_proof_subcheck(&ctx);
    }
    if let Some(t) = warm {
        // (after a violation the report is not held back for a fixture nobody will use)
        if !ctx.violated() || t.is_finished() {
            let _ = t.join();
        }
    }
    migration::real_proof::cleanup();
    ctx.finish();
}

#[allow(dead_code)]
fn unused(_: BTreeMap<u8, u8>) {}

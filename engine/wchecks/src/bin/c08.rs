//! C08 — Proposals spend only spendable funds, each once, and balance exactly.
//!
//! A generated wallet history (chainsim `Case`: blocks with receipts/spends in three pools, scans in
//! any order, rewinds with/without reorg) is applied to a real SQLite wallet and to the model ledger;
//! then a generated sequence of C08 operations runs: chain advances (so notes gain confirmations and
//! locks expire), fresh receipts, rewinds, proposals of every kind (`propose_transfer` with single /
//! multi-output change strategies, `propose_standard_transfer_to_address`,
//! `propose_send_max_transfer`) under generated confirmation policies, spend policies, locked-input
//! policies and lock requests, `unlock_proposal_inputs`, `clear_locked_outputs`, and execution of earlier
//! Sapling-only proposals with the mock provers (`create_proposed_transactions` ->
//! `store_transactions_to_be_sent`), which leaves a pending spender behind, and `MineExecuted`: such a stored transaction
//! (a shielding transaction whose coins were mined at different heights, some only 0-2 blocks before the shielding; a
//! shielding of one coin; an ordinary Sapling transfer with change) is mined in a new block (`Chain::add_block_with_tx`)
//! and scanned, so that the wallet holds notes whose receiving transaction it funded itself; `Cycle` strings receipt,
//! shielding / transfer proposal, execution, mining, waiting and a follow-up proposal together.
//!
//! Oracle (safety direction): every note selected by a returned proposal is a model note of the
//! requested account, mined in a scanned block of the current branch, not spent by a mined transaction,
//! by an unexpired orphaned transaction or by an unexpired stored (pending) transaction, deep enough for
//! the policy (documented rule), not locked by an owner the policy does not admit, in a pool the policy
//! permits, witnessable at the step's anchor (and the witness hashes to the model's true root there),
//! selected once; every step balances exactly when recomputed from its parts; the payments are the
//! requested ones; the lock table the wallet reports equals the model's lock table after every operation.
//!
//! Liveness is not part of the property statement; two self-evident contradictions of the wallet's own
//! answers are nevertheless detected and counted as observations (DESIGN.md 9.4; see `SIG_SELF_CONTRADICTION`,
//! `SIG_HAVE_GE_NEED`): the InsufficientFunds error reporting `available >= required`, and an
//! InsufficientFunds for a small request while the same wallet reports far more as available when asked
//! for a larger amount.
//!
//! Transparent coins (sub-check "transparent"). The chain model has no transparent outputs, so the coins live in
//! a model of their own inside this file (`Coin`, `TTx`): the wallet learns of a coin the way a light client does,
//! through `put_received_transparent_utxo` (mined at a height of the current branch, or with unknown height) or
//! through `decrypt_and_store_transaction` of a full transaction (mined, in the mempool with a known expiry height,
//! or a coinbase transaction), at the default transparent receiver / further external / internal (change) /
//! ephemeral addresses of any account; coins are spent by mined, mempool or stored pending transactions, un-mined
//! by rewinds and re-announced on the new branch. `propose_shielding`, `propose_shielding_coinbase` and
//! `propose_transfer` with a `TransparentSpendPolicy` are judged coin by coin against that model, the model lock
//! table covers transparent outputs, and shielding / transparent-input proposals are executed with the mock
//! Sapling provers (`create_proposed_transactions`) so that real stored spenders exist.

use std::collections::{BTreeMap, BTreeSet};
use std::convert::Infallible;
use std::num::{NonZeroU32, NonZeroUsize};

use chainsim::*;
use incrementalmerkletree::Position;
use orchard::tree::MerkleHashOrchard;
use proptest::prelude::*;
use shardtree::error::ShardTreeError;
use vcore::{vensure, vfail, CaseResult, Ctx, Fail, Obs};
use zcash_client_backend::{
    data_api::{
        error::Error as WalletError,
        wallet::{
            create_proposed_transactions, decrypt_and_store_transaction,
            input_selection::{CoinbasePolicy, GreedyInputSelector, LockedInputPolicy, NonEmptyBTreeSet, SpendPolicy, TransparentSpendPolicy},
            propose_send_max_transfer, propose_shielding, propose_shielding_coinbase, propose_standard_transfer_to_address, propose_transfer, unlock_proposal_inputs, ConfirmationsPolicy,
            LockRequest, SpendingKeys, TargetHeight,
        },
        CoinbaseFilter, MaxSpendMode, OutputLockStore, SentTransaction, WalletCommitmentTrees, WalletRead, WalletWrite,
    },
    fees::{
        standard::{MultiOutputChangeStrategy, SingleOutputChangeStrategy},
        DustOutputPolicy, SplitPolicy, StandardFeeRule,
    },
    proposal::{Proposal, ProposalError, StepOutputIndex},
    wallet::{LockOwner, OutputRef, OvkPolicy, WalletTransparentOutput},
};
use zcash_client_sqlite::ReceivedNoteId;
use zcash_keys::{
    address::Address,
    keys::{ReceiverRequirement, UnifiedAddressRequest},
};
use zcash_primitives::transaction::{Transaction, TransactionData, TxVersion};
use zcash_protocol::{
    consensus::{BlockHeight, BranchId},
    value::Zatoshis,
    PoolType, ShieldedPool,
};
use zcash_transparent::{
    address::{Script, TransparentAddress},
    bundle::{Authorized as TAuthorized, Bundle as TBundle, OutPoint, TxIn, TxOut},
    keys::{IncomingViewingKey, NonHardenedChildIndex},
};
use zip321::{Payment, TransactionRequest};

const MAX_MONEY: u64 = 2_100_000_000_000_000;
const N_OWNERS: u8 = 3;

type TreeErr = ShardTreeError<zcash_client_sqlite::wallet::commitment_tree::Error>;
type Prop = Proposal<StandardFeeRule, ReceivedNoteId>;
type NoteKey = (Pool, [u8; 32], u32);
/// (txid, output index) of a transparent coin
type CoinKey = ([u8; 32], u32);
type ShieldProp = Proposal<StandardFeeRule, Infallible>;
/// consensus coinbase maturity (documented by `get_spendable_transparent_outputs`: "adheres to the coinbase maturity requirement")
const COINBASE_MATURITY: u32 = 100;

// ---------------------------------------------------------------------------------------------
// Case description
// ---------------------------------------------------------------------------------------------

#[derive(Clone, Copy, Debug, PartialEq, Eq)]
enum AddrKind {
    Sapling,
    UaFull,
    UaOrchard,
    UaSapling,
    UaSaplingP2pkh,
    P2pkh,
    P2sh,
    Tex,
    /// the default unified address of one of the wallet's own accounts
    OwnUa,
}

#[derive(Clone, Copy, Debug)]
enum Amount {
    Tiny(u64),
    /// percentage of the model-spendable total
    Pct(u8),
    /// model-spendable total minus k
    TotalMinus(u64),
    TotalPlus(u64),
    Far,
    /// a canonical ZIP 318 denomination ({1,2,5}*10^k zatoshi, >= 0.01 ZEC) at or below the total, picked from the top
    Canonical(u8),
    /// the model-spendable total PLUS this percentage of the value of the account's notes that are unspent, unlocked and
    /// mined at or below the anchor but still inside their confirmation window (a request only those notes could cover)
    IntoWindow(u8),
}

#[derive(Clone, Copy, Debug)]
struct Pay {
    addr: AddrKind,
    /// recipient key set selector
    rk: u8,
    amount: Amount,
}

#[derive(Clone, Copy, Debug)]
enum ChangeSel {
    Single,
    Multi { count: u8, min: u64 },
}

#[derive(Clone, Debug)]
enum Kind {
    Transfer { pays: Vec<Pay>, change: ChangeSel, fallback_orchard: bool },
    Standard { pay: Pay, fallback_orchard: bool },
    SendMax { addr: AddrKind, rk: u8, everything: bool },
    /// `propose_transfer` of one canonical ZIP 318 denomination to an Orchard receiver (pool crossing after NU6.3)
    Crossing { rk: u8, orchard_only_ua: bool, idx: u8 },
    /// `propose_transfer` restricted to the Sapling pool, paying a Sapling or transparent recipient: the shape whose
    /// transaction `Execute` can build with the mock Sapling provers
    SaplingOnly { pay: Pay, multi: bool },
}

#[derive(Clone, Copy, Debug)]
enum LockPol {
    Exclude,
    PreferUnlocked(u8),
    PreferLocked(u8),
}

#[derive(Clone, Debug)]
struct ProposeSpec {
    kind: Kind,
    account: u8,
    trusted: u8,
    untrusted_extra: u8,
    lock_pol: LockPol,
    /// bit 0 Sapling, 1 Orchard, 2 Ironwood
    pools_mask: u8,
    /// (owner, for_blocks)
    lock: Option<(u8, u8)>,
    /// `Some`: the spend policy carries a `TransparentSpendPolicy` (only honoured by the `propose_transfer` kinds)
    tsrc: Option<TSrc>,
}

/// One transparent address of a wallet account, named by how the account's keys derive it.
#[derive(Clone, Copy, Debug, PartialEq, Eq, PartialOrd, Ord)]
enum Slot {
    /// the transparent receiver of the account's default unified address
    Default,
    /// external-scope address at this child index
    Ext(u8),
    /// internal-scope (change) address at this child index
    Int(u8),
    /// ephemeral-scope address at this child index
    Eph(u8),
}

/// never paid by any generated receipt
const EMPTY_SLOT: Slot = Slot::Int(3);

#[derive(Clone, Copy, Debug)]
enum AddrSel {
    /// an address of the proposal's own account
    Own(Slot),
    /// the same slot of the wallet's next account (the account itself when there is only one)
    Other(Slot),
    /// an address of the account that never receives anything
    Empty,
    /// a P2PKH address no wallet account owns
    Unknown,
}

/// the transparent part of a transfer's spend policy
#[derive(Clone, Debug)]
struct TSrc {
    /// `None`: `TransparentSpendPolicy::any_account_addr()`; `Some`: `from_addresses`
    from: Option<Vec<AddrSel>>,
    only_coinbase: bool,
    zero_conf: bool,
}

#[derive(Clone, Copy, Debug)]
enum ExpSel {
    /// expiry height 0: never expires
    Never,
    /// expires at (wallet tip + 1) + k
    After(u8),
    /// an expiry height below the wallet's tip (a stale mempool transaction)
    Stale,
}

#[derive(Clone, Copy, Debug)]
enum RecvHow {
    /// `put_received_transparent_utxo`, as `sync::refresh_utxos` does (`known_height` = false: mined height `None`)
    Put { known_height: bool },
    /// `decrypt_and_store_transaction` of a full transaction paying the wallet, mined or in the mempool
    Full { mined: bool, expiry: ExpSel },
    /// `decrypt_and_store_transaction` of a mined coinbase transaction (the wallet then knows `tx_index == 0`)
    Coinbase,
}

#[derive(Clone, Debug)]
struct CoinRecv {
    how: RecvHow,
    account: u8,
    /// (account shift, address slot or `None` = nobody's address, value)
    outs: Vec<(u8, Option<Slot>, u64)>,
    /// mined at wallet tip - depth (clipped to the modelled chain)
    depth: u8,
}

#[derive(Clone, Copy, Debug)]
enum SpendHow {
    /// `decrypt_and_store_transaction(tx, Some(height))`
    Mined { depth: u8 },
    /// `decrypt_and_store_transaction(tx, None)`: seen in the mempool
    Mempool,
    /// `store_transactions_to_be_sent` with `utxos_spent`: a transaction the wallet created and has not seen mined
    Stored,
}

#[derive(Clone, Debug)]
struct CoinSpend {
    sels: Vec<u32>,
    how: SpendHow,
    expiry: ExpSel,
    /// an output of the spending transaction that pays the spender's own account again
    back: Option<(Slot, u64)>,
}

#[derive(Clone, Copy, Debug)]
enum ShieldKind {
    /// `propose_shielding`; `filter` 0 = all outputs, 1 = coinbase only, 2 = non-coinbase only
    Shield { filter: u8, fallback_orchard: bool, multi: bool },
    /// `propose_shielding_coinbase` to a shielded (or, rarely, an inadmissible) address
    Coinbase { to: AddrKind, rk: u8, limit: Option<u8> },
}

#[derive(Clone, Debug)]
struct ShieldSpec {
    kind: ShieldKind,
    /// rank by model-selectable transparent value
    account: u8,
    /// every address of the account that holds a coin in the model is requested (what `get_transparent_receivers` callers do)
    all_funded: bool,
    skip_ephemeral: bool,
    from: Vec<AddrSel>,
    threshold: Amount,
    trusted: u8,
    untrusted_extra: u8,
    zero_conf: bool,
    lock_pol: LockPol,
    lock: Option<(u8, u8)>,
}

#[derive(Clone, Debug)]
enum TOp {
    Recv(CoinRecv),
    Spend(CoinSpend),
    /// an un-mined coin's transaction is announced as mined at a height of the current branch
    Remine { sel: u32, depth: u8 },
    /// one empty block; a coin mined in it; a reorganisation removes that block (rewind by 1 + `extra`); `n` new blocks
    RecvThenReorg { recv: CoinRecv, extra: u8, n: u8 },
    Shield(ShieldSpec),
    /// enough empty blocks for coinbase maturity
    AdvanceFar { n: u8 },
    /// a coinbase output mined in the tip block, `n` more blocks (the output is mature at the next target height iff
    /// n + 1 >= 100), then a shielding request that asks for coinbase outputs
    CoinbaseMatured { account: u8, slot: Slot, value: u64, n: u8, shield: ShieldSpec },
}

#[derive(Clone, Debug)]
enum XOp {
    /// an operation on the transparent coin model (sub-check "transparent" only)
    T(TOp),
    /// add n empty blocks and scan them
    Advance { n: u8 },
    /// add one generated block (receipts/spends) and scan it
    Receive(BlockSpec),
    /// a plain history op (rewinds, partial scans, tip updates)
    Base(Op),
    /// a block whose transaction spends one wallet note is mined and scanned, then a reorganisation removes that
    /// block (rewind by one + `extra`), and `n` empty blocks of the new branch are scanned: the spender is now an
    /// un-mined transaction with unknown expiry, unexpired for 40 blocks
    SpendThenReorg { sel: u32, pool_hint: Pool, extra: u8, n: u8 },
    Propose(ProposeSpec),
    /// `unlock_proposal_inputs` of an earlier successful proposal under the given owner
    Unlock { sel: u32, owner: u8 },
    ClearLocks { account: u8 },
    /// build (mock provers) and STORE the transaction of an earlier, Sapling-only, single-step proposal:
    /// `create_proposed_transactions` -> `store_transactions_to_be_sent`; the transaction is never mined
    Execute { sel: u32 },
    /// an executed (stored) transaction that was never mined is mined: `k` empty blocks, then a block holding exactly
    /// that transaction (`Chain::add_block_with_tx`), all scanned
    MineExecuted { sel: u32, k: u8 },
    /// a whole wallet-funded cycle: (transparent receipts,) a shielding / Sapling-only transfer proposal, its execution,
    /// the transaction mined `k` blocks later, `wait` more blocks, then a proposal from the same account
    Cycle { recvs: Vec<CoinRecv>, first: CycleFirst, k: u8, wait: u8, then: ProposeSpec },
}

#[derive(Clone, Debug)]
enum CycleFirst {
    Shield(ShieldSpec),
    Transfer(ProposeSpec),
}

#[derive(Clone, Debug)]
struct C08Case {
    base: Case,
    /// busy blocks appended after the base history (so that most wallets hold notes)
    seed_blocks: Vec<BlockSpec>,
    /// empty blocks appended after them (confirmations)
    seed_advance: u8,
    /// `Some(chunk)`: scan every gap before the C08 ops and after every chain extension ("synced wallet");
    /// `None`: leave the gaps of the base history (unscanned-shard situations)
    full_scan: Option<u16>,
    /// transparent receipts applied right after the pre-sync (empty in the shielded-only sub-check)
    seed_coins: Vec<CoinRecv>,
    xops: Vec<XOp>,
}

fn arb_addr_kind() -> impl Strategy<Value = AddrKind> {
    prop_oneof![
        3 => Just(AddrKind::Sapling),
        3 => Just(AddrKind::UaFull),
        3 => Just(AddrKind::UaOrchard),
        1 => Just(AddrKind::UaSapling),
        1 => Just(AddrKind::UaSaplingP2pkh),
        2 => Just(AddrKind::P2pkh),
        1 => Just(AddrKind::P2sh),
        2 => Just(AddrKind::Tex),
        1 => Just(AddrKind::OwnUa),
    ]
}

fn arb_amount() -> impl Strategy<Value = Amount> {
    prop_oneof![
        3 => prop_oneof![Just(1u64), Just(1000), Just(5000), Just(5001), Just(10_000), Just(100_000)].prop_map(Amount::Tiny),
        9 => (1u8..100).prop_map(Amount::Pct),
        4 => prop_oneof![Just(0u64), Just(5000), Just(9_999), Just(10_000), Just(10_001), Just(15_000), Just(20_000), Just(25_000), Just(40_000)]
            .prop_map(Amount::TotalMinus),
        1 => prop_oneof![Just(1u64), Just(10_000)].prop_map(Amount::TotalPlus),
        1 => Just(Amount::Far),
        2 => (0u8..4).prop_map(Amount::Canonical),
    ]
}

fn arb_pay() -> impl Strategy<Value = Pay> {
    (arb_addr_kind(), 0u8..2, arb_amount()).prop_map(|(addr, rk, amount)| Pay { addr, rk, amount })
}

fn arb_kind() -> impl Strategy<Value = Kind> {
    let change = prop_oneof![
        2 => Just(ChangeSel::Single),
        1 => (2u8..5, prop_oneof![Just(10_000u64), Just(100_000), Just(1_000_000)]).prop_map(|(count, min)| ChangeSel::Multi { count, min }),
    ];
    prop_oneof![
        6 => (proptest::collection::vec(arb_pay(), 1..=3), change, any::<bool>())
            .prop_map(|(pays, change, fallback_orchard)| Kind::Transfer { pays, change, fallback_orchard }),
        2 => (arb_pay(), any::<bool>()).prop_map(|(pay, fallback_orchard)| Kind::Standard { pay, fallback_orchard }),
        3 => (arb_addr_kind(), 0u8..2, any::<bool>()).prop_map(|(addr, rk, everything)| Kind::SendMax { addr, rk, everything }),
        2 => (0u8..2, any::<bool>(), 0u8..3).prop_map(|(rk, orchard_only_ua, idx)| Kind::Crossing { rk, orchard_only_ua, idx }),
        3 => (0u8..2, prop_oneof![Just(AddrKind::Sapling), Just(AddrKind::P2pkh), Just(AddrKind::UaSapling)], arb_amount(), any::<bool>())
            .prop_map(|(rk, addr, amount, multi)| Kind::SaplingOnly { pay: Pay { addr, rk, amount }, multi }),
    ]
}

fn arb_propose() -> impl Strategy<Value = ProposeSpec> {
    (
        arb_kind(),
        prop_oneof![5 => Just(0u8), 1 => Just(1u8), 1 => Just(2u8)],
        prop_oneof![Just(1u8), Just(1), Just(2), Just(3), Just(3), Just(5), Just(10)],
        prop_oneof![3 => Just(0u8), 2 => 1u8..=3, 2 => 4u8..=10],
        prop_oneof![
            5 => Just(LockPol::Exclude),
            2 => (1u8..8).prop_map(LockPol::PreferUnlocked),
            2 => (1u8..8).prop_map(LockPol::PreferLocked),
        ],
        prop_oneof![6 => Just(7u8), 2 => Just(1u8), 2 => 1u8..8],
        prop::option::weighted(0.6, (0u8..N_OWNERS, prop_oneof![3 => 0u8..11, 1 => 11u8..40])),
    )
        .prop_map(|(kind, account, trusted, untrusted_extra, lock_pol, pools_mask, lock)| ProposeSpec { kind, account, trusted, untrusted_extra, lock_pol, pools_mask, lock, tsrc: None })
}

// --- transparent generators -------------------------------------------------------------------

fn arb_slot() -> impl Strategy<Value = Slot> {
    prop_oneof![
        6 => Just(Slot::Default),
        3 => Just(Slot::Ext(1)),
        1 => Just(Slot::Ext(2)),
        2 => Just(Slot::Int(0)),
        1 => Just(Slot::Eph(0)),
    ]
}

fn arb_addr_sel() -> impl Strategy<Value = AddrSel> {
    prop_oneof![
        8 => arb_slot().prop_map(AddrSel::Own),
        3 => arb_slot().prop_map(AddrSel::Other),
        2 => Just(AddrSel::Empty),
        1 => Just(AddrSel::Unknown),
    ]
}

fn arb_exp_sel() -> impl Strategy<Value = ExpSel> {
    prop_oneof![2 => Just(ExpSel::Never), 6 => (0u8..45).prop_map(ExpSel::After), 1 => Just(ExpSel::Stale)]
}

fn arb_coin_recv(na: u8) -> impl Strategy<Value = CoinRecv> {
    let how = prop_oneof![
        8 => Just(RecvHow::Put { known_height: true }),
        1 => Just(RecvHow::Put { known_height: false }),
        3 => arb_exp_sel().prop_map(|expiry| RecvHow::Full { mined: true, expiry }),
        3 => arb_exp_sel().prop_map(|expiry| RecvHow::Full { mined: false, expiry }),
        3 => Just(RecvHow::Coinbase),
    ];
    let out = (prop_oneof![9 => Just(0u8), 1 => Just(1u8)], prop::option::weighted(0.95, arb_slot()), arb_value());
    (how, 0..na.max(1), proptest::collection::vec(out, 1..=2), prop_oneof![3 => Just(0u8), 3 => 1u8..4, 3 => 4u8..12, 1 => 12u8..60])
        .prop_map(|(how, account, outs, depth)| CoinRecv { how, account, outs, depth })
}

fn arb_coin_spend() -> impl Strategy<Value = CoinSpend> {
    (
        proptest::collection::vec(any::<u32>(), 1..=2),
        prop_oneof![3 => (0u8..6).prop_map(|depth| SpendHow::Mined { depth }), 3 => Just(SpendHow::Mempool), 4 => Just(SpendHow::Stored)],
        arb_exp_sel(),
        prop::option::weighted(0.25, (arb_slot(), arb_value())),
    )
        .prop_map(|(sels, how, expiry, back)| CoinSpend { sels, how, expiry, back })
}

fn arb_lock_pol() -> impl Strategy<Value = LockPol> {
    prop_oneof![
        5 => Just(LockPol::Exclude),
        2 => (1u8..8).prop_map(LockPol::PreferUnlocked),
        2 => (1u8..8).prop_map(LockPol::PreferLocked),
    ]
}

fn arb_shield() -> impl Strategy<Value = ShieldSpec> {
    let kind = prop_oneof![
        10 => (prop_oneof![6 => Just(0u8), 1 => Just(1u8), 3 => Just(2u8)], any::<bool>(), prop::bool::weighted(0.3))
            .prop_map(|(filter, fallback_orchard, multi)| ShieldKind::Shield { filter, fallback_orchard, multi }),
        2 => (
            prop_oneof![6 => Just(AddrKind::Sapling), 4 => Just(AddrKind::UaFull), 3 => Just(AddrKind::UaOrchard), 3 => Just(AddrKind::OwnUa), 1 => Just(AddrKind::P2pkh), 1 => Just(AddrKind::Tex)],
            0u8..2,
            prop::option::weighted(0.4, 0u8..4)
        )
            .prop_map(|(to, rk, limit)| ShieldKind::Coinbase { to, rk, limit }),
    ];
    let threshold = prop_oneof![
        3 => prop_oneof![Just(0u64), Just(1), Just(5000), Just(10_000), Just(100_000)].prop_map(Amount::Tiny),
        5 => (1u8..100).prop_map(Amount::Pct),
        4 => prop_oneof![Just(0u64), Just(1), Just(5000), Just(10_000), Just(15_000), Just(20_000)].prop_map(Amount::TotalMinus),
        2 => prop_oneof![Just(1u64), Just(10_000)].prop_map(Amount::TotalPlus),
        1 => Just(Amount::Far),
    ];
    (
        kind,
        prop_oneof![6 => Just(0u8), 1 => Just(1u8), 1 => Just(2u8)],
        (prop::bool::weighted(0.75), prop::bool::weighted(0.8), proptest::collection::vec(arb_addr_sel(), 0..=2)),
        threshold,
        (prop_oneof![Just(1u8), Just(1), Just(2), Just(3), Just(3), Just(5), Just(10)], prop_oneof![3 => Just(0u8), 2 => 1u8..=3, 2 => 4u8..=10], prop::bool::weighted(0.45)),
        arb_lock_pol(),
        prop::option::weighted(0.6, (0u8..N_OWNERS, prop_oneof![3 => 0u8..11, 1 => 11u8..40])),
    )
        .prop_map(|(kind, account, (all_funded, skip_ephemeral, from), threshold, (trusted, untrusted_extra, zero_conf), lock_pol, lock)| ShieldSpec {
            kind,
            account,
            all_funded,
            skip_ephemeral,
            from,
            threshold,
            trusted,
            untrusted_extra,
            zero_conf,
            lock_pol,
            lock,
        })
}

/// a `propose_transfer` kind whose spend policy permits transparent inputs
fn arb_propose_t() -> impl Strategy<Value = ProposeSpec> {
    let kind = prop_oneof![
        7 => (proptest::collection::vec(arb_pay(), 1..=2), prop_oneof![2 => Just(ChangeSel::Single), 1 => Just(ChangeSel::Multi { count: 2, min: 100_000 })], any::<bool>())
            .prop_map(|(pays, change, fallback_orchard)| Kind::Transfer { pays, change, fallback_orchard }),
        3 => (0u8..2, prop_oneof![Just(AddrKind::Sapling), Just(AddrKind::P2pkh), Just(AddrKind::UaSapling)], arb_amount(), any::<bool>())
            .prop_map(|(rk, addr, amount, multi)| Kind::SaplingOnly { pay: Pay { addr, rk, amount }, multi }),
    ];
    let tsrc = (prop::option::weighted(0.4, proptest::collection::vec(arb_addr_sel(), 1..=3)), prop::bool::weighted(0.12), prop::bool::weighted(0.45))
        .prop_map(|(from, only_coinbase, zero_conf)| TSrc { from, only_coinbase, zero_conf });
    (
        kind,
        prop_oneof![6 => Just(0u8), 1 => Just(1u8), 1 => Just(2u8)],
        prop_oneof![Just(1u8), Just(1), Just(2), Just(3), Just(3), Just(5), Just(10)],
        prop_oneof![3 => Just(0u8), 2 => 1u8..=3, 2 => 4u8..=10],
        arb_lock_pol(),
        // shielded pools the policy permits next to the transparent source: often none, so that coins must fund it
        prop_oneof![4 => Just(0u8), 3 => Just(7u8), 2 => Just(1u8), 1 => 1u8..8],
        prop::option::weighted(0.6, (0u8..N_OWNERS, prop_oneof![3 => 0u8..11, 1 => 11u8..40])),
        tsrc,
    )
        .prop_map(|(kind, account, trusted, untrusted_extra, lock_pol, pools_mask, lock, tsrc)| ProposeSpec { kind, account, trusted, untrusted_extra, lock_pol, pools_mask, lock, tsrc: Some(tsrc) })
}

fn arb_top(na: u8) -> impl Strategy<Value = TOp> {
    prop_oneof![
        9 => arb_shield().prop_map(TOp::Shield),
        5 => arb_coin_recv(na).prop_map(TOp::Recv),
        3 => arb_coin_spend().prop_map(TOp::Spend),
        1 => (any::<u32>(), 0u8..6).prop_map(|(sel, depth)| TOp::Remine { sel, depth }),
        2 => (arb_coin_recv(na), 0u8..2, 1u8..4).prop_map(|(recv, extra, n)| TOp::RecvThenReorg { recv, extra, n }),
        1 => (92u8..=110).prop_map(|n| TOp::AdvanceFar { n }),
        2 => (
            0..na.max(1),
            arb_slot(),
            prop_oneof![2 => Just(625_000_000u64), 3 => 10_000u64..2_000_000, 2 => arb_value()],
            prop_oneof![3 => 97u8..=101, 1 => 92u8..=110],
            arb_shield(),
            (prop_oneof![6 => Just(AddrKind::Sapling), 4 => Just(AddrKind::UaFull), 3 => Just(AddrKind::UaOrchard), 3 => Just(AddrKind::OwnUa)], 0u8..2, prop::option::weighted(0.3, 1u8..4), prop::bool::weighted(0.7)),
        )
            .prop_map(|(account, slot, value, n, mut shield, (to, rk, limit, coinbase_api))| {
                shield.kind = match (coinbase_api, shield.kind) {
                    (true, _) => ShieldKind::Coinbase { to, rk, limit },
                    (false, ShieldKind::Shield { fallback_orchard, multi, .. }) => ShieldKind::Shield { filter: 1, fallback_orchard, multi },
                    (false, k) => k,
                };
                shield.all_funded = true;
                TOp::CoinbaseMatured { account, slot, value, n, shield }
            }),
    ]
}

/// the proposal that closes a `Cycle`: mostly value-targeted, Sapling permitted, untrusted well above trusted, the amount
/// reaching into the confirmation window
fn arb_cycle_then() -> impl Strategy<Value = ProposeSpec> {
    let amount = prop_oneof![6 => (5u8..=90).prop_map(Amount::IntoWindow), 2 => arb_amount()];
    let addr = prop_oneof![3 => Just(AddrKind::Sapling), 2 => Just(AddrKind::P2pkh), 1 => Just(AddrKind::UaSapling), 1 => Just(AddrKind::UaFull), 1 => Just(AddrKind::Tex)];
    let pay = (addr, 0u8..2, amount).prop_map(|(addr, rk, amount)| Pay { addr, rk, amount });
    let kind = prop_oneof![
        4 => (pay.clone(), any::<bool>()).prop_map(|(pay, multi)| Kind::SaplingOnly { pay, multi }),
        3 => (pay.clone(), any::<bool>()).prop_map(|(pay, fallback_orchard)| Kind::Standard { pay, fallback_orchard }),
        3 => (pay, prop_oneof![2 => Just(ChangeSel::Single), 1 => Just(ChangeSel::Multi { count: 2, min: 100_000 })], any::<bool>())
            .prop_map(|(pay, change, fallback_orchard)| Kind::Transfer { pays: vec![pay], change, fallback_orchard }),
        1 => (arb_addr_kind(), 0u8..2, any::<bool>()).prop_map(|(addr, rk, everything)| Kind::SendMax { addr, rk, everything }),
    ];
    (
        kind,
        prop_oneof![3 => Just(1u8), 2 => Just(2u8), 2 => Just(3u8), 1 => Just(5u8)],
        prop_oneof![1 => Just(0u8), 2 => 1u8..=4, 6 => 5u8..=14],
        prop_oneof![6 => Just(LockPol::Exclude), 1 => (1u8..8).prop_map(LockPol::PreferUnlocked), 1 => (1u8..8).prop_map(LockPol::PreferLocked)],
        prop_oneof![5 => Just(7u8), 3 => Just(1u8), 1 => Just(3u8)],
        prop::option::weighted(0.3, (0u8..N_OWNERS, 0u8..11)),
    )
        .prop_map(|(kind, trusted, untrusted_extra, lock_pol, pools_mask, lock)| ProposeSpec { kind, account: 0, trusted, untrusted_extra, lock_pol, pools_mask, lock, tsrc: None })
}

/// A shielding cycle: 1-3 coins paid to one account at DIFFERENT depths (one of them 0-2 blocks below the tip, so that
/// it can only be shielded under zero-conf), everything funded shielded into Sapling, executed, mined `k` blocks later.
fn arb_cycle_shield(na: u8) -> impl Strategy<Value = XOp> {
    let how = prop_oneof![5 => Just(RecvHow::Put { known_height: true }), 3 => Just(RecvHow::Full { mined: true, expiry: ExpSel::Never }), 1 => Just(RecvHow::Full { mined: false, expiry: ExpSel::After(30) }), 1 => Just(RecvHow::Put { known_height: false })];
    let coin = |depth: BoxedStrategy<u8>| (how.clone(), prop_oneof![4 => Just(Slot::Default), 2 => Just(Slot::Ext(1)), 1 => Just(Slot::Int(0))], 20_000u64..3_000_000, depth);
    let old = coin(prop_oneof![3 => 3u8..12, 3 => 12u8..30].boxed());
    let young = coin((0u8..3).boxed());
    let third = coin((0u8..20).boxed());
    (
        0..na.max(1),
        prop_oneof![5 => (old.clone(), young.clone()).prop_map(|(a, b)| vec![a, b]), 2 => (old.clone(), young.clone(), third).prop_map(|(a, b, c)| vec![a, c, b]), 2 => young.prop_map(|b| vec![b]), 1 => old.prop_map(|a| vec![a])],
        arb_shield(),
        (prop::bool::weighted(0.25), prop::bool::weighted(0.85)),
        prop_oneof![4 => 0u8..3, 2 => 3u8..12],
        prop_oneof![5 => 0u8..4, 3 => 4u8..12, 1 => 12u8..30],
        arb_cycle_then(),
    )
        .prop_map(|(account, coins, mut shield, (multi, zero_conf), k, wait, then)| {
            let recvs = coins.into_iter().map(|(how, slot, value, depth)| CoinRecv { how, account, outs: vec![(0, Some(slot), value)], depth }).collect();
            shield.kind = ShieldKind::Shield { filter: 0, fallback_orchard: false, multi };
            shield.account = 0;
            shield.all_funded = true;
            shield.from = vec![];
            shield.threshold = Amount::Tiny(10_000);
            shield.zero_conf = zero_conf;
            shield.lock_pol = LockPol::Exclude;
            XOp::Cycle { recvs, first: CycleFirst::Shield(shield), k, wait, then }
        })
}

/// A transfer cycle: a Sapling-only transfer with change, executed, mined `k` blocks later; then a proposal.
fn arb_cycle_transfer() -> impl Strategy<Value = XOp> {
    (
        arb_propose(),
        (0u8..2, prop_oneof![Just(AddrKind::Sapling), Just(AddrKind::P2pkh), Just(AddrKind::UaSapling), Just(AddrKind::OwnUa)], prop_oneof![3 => (1u8..80).prop_map(Amount::Pct), 1 => Just(Amount::Tiny(10_000))], any::<bool>()),
        prop_oneof![4 => 0u8..3, 2 => 3u8..12],
        prop_oneof![5 => 0u8..4, 3 => 4u8..12, 1 => 12u8..30],
        arb_cycle_then(),
    )
        .prop_map(|(mut first, (rk, addr, amount, multi), k, wait, then)| {
            first.kind = Kind::SaplingOnly { pay: Pay { addr, rk, amount }, multi };
            XOp::Cycle { recvs: vec![], first: CycleFirst::Transfer(first), k, wait, then }
        })
}

fn arb_xop_t(na: u8, nf: u8, iw: bool) -> impl Strategy<Value = XOp> {
    prop_oneof![
        4 => arb_cycle_shield(na),
        1 => arb_cycle_transfer(),
        3 => (any::<u32>(), prop_oneof![3 => 0u8..3, 2 => 3u8..12]).prop_map(|(sel, k)| XOp::MineExecuted { sel, k }),
        21 => arb_top(na).prop_map(XOp::T),
        5 => arb_propose_t().prop_map(XOp::Propose),
        2 => arb_propose().prop_map(XOp::Propose),
        3 => prop_oneof![6 => 1u8..=12, 1 => 30u8..=45].prop_map(|n| XOp::Advance { n }),
        1 => arb_block(na, nf, iw, 2, 3).prop_map(XOp::Receive),
        1 => (0u8..6, any::<bool>()).prop_map(|(depth, reorg)| XOp::Base(Op::Truncate { depth, reorg })),
        1 => (any::<u32>(), arb_pool(iw), 0u8..2, 1u8..4).prop_map(|(sel, pool_hint, extra, n)| XOp::SpendThenReorg { sel, pool_hint, extra, n }),
        2 => (any::<u32>(), 0u8..N_OWNERS).prop_map(|(sel, owner)| XOp::Unlock { sel, owner }),
        1 => (0u8..3).prop_map(|account| XOp::ClearLocks { account }),
        4 => any::<u32>().prop_map(|sel| XOp::Execute { sel }),
    ]
}

/// Sub-check "transparent": a (shorter) base history, then transparent receipts, then operations that are mostly
/// about transparent coins.
fn arb_c08_case_t(max_base_ops: usize, p_long: u32) -> impl Strategy<Value = C08Case> {
    (arb_case(max_base_ops, p_long), prop::option::weighted(0.9, 1u16..200), 0u8..16).prop_flat_map(|(base, full_scan, seed_advance)| {
        let iw = base.world.nu6_3_offset.is_some();
        let (na, nf) = (base.world.n_accounts, base.world.n_foreign);
        let busy = proptest::collection::vec(arb_tx(na, nf, iw, 4), 1..=2).prop_map(|txs| BlockSpec { txs });
        (proptest::collection::vec(busy, 0..3), proptest::collection::vec(arb_coin_recv(na), 1..6), proptest::collection::vec(arb_xop_t(na, nf, iw), 8..21))
            .prop_map(move |(seed_blocks, seed_coins, xops)| C08Case { base: base.clone(), seed_blocks, seed_advance, full_scan, seed_coins, xops })
    })
}

fn arb_xop(na: u8, nf: u8, iw: bool) -> impl Strategy<Value = XOp> {
    prop_oneof![
        2 => arb_cycle_transfer(),
        2 => (any::<u32>(), prop_oneof![3 => 0u8..3, 2 => 3u8..12]).prop_map(|(sel, k)| XOp::MineExecuted { sel, k }),
        14 => arb_propose().prop_map(XOp::Propose),
        3 => prop_oneof![6 => 1u8..=12, 1 => 30u8..=45].prop_map(|n| XOp::Advance { n }),
        2 => arb_block(na, nf, iw, 2, 3).prop_map(XOp::Receive),
        1 => (0u8..6, any::<bool>()).prop_map(|(depth, reorg)| XOp::Base(Op::Truncate { depth, reorg })),
        2 => (any::<u32>(), arb_pool(iw), 0u8..2, 1u8..4).prop_map(|(sel, pool_hint, extra, n)| XOp::SpendThenReorg { sel, pool_hint, extra, n }),
        1 => (any::<u32>(), any::<bool>(), 1u16..12).prop_map(|(which, from_end, chunk)| XOp::Base(Op::ScanGap { which, from_end, chunk })),
        2 => (any::<u32>(), 0u8..N_OWNERS).prop_map(|(sel, owner)| XOp::Unlock { sel, owner }),
        1 => (0u8..3).prop_map(|account| XOp::ClearLocks { account }),
        4 => any::<u32>().prop_map(|sel| XOp::Execute { sel }),
    ]
}

fn arb_c08_case(max_base_ops: usize, p_long: u32) -> impl Strategy<Value = C08Case> {
    (arb_case(max_base_ops, p_long), prop::option::weighted(0.85, 1u16..200), 0u8..16).prop_flat_map(|(base, full_scan, seed_advance)| {
        let iw = base.world.nu6_3_offset.is_some();
        let (na, nf) = (base.world.n_accounts, base.world.n_foreign);
        let busy = proptest::collection::vec(arb_tx(na, nf, iw, 4), 1..=3).prop_map(|txs| BlockSpec { txs });
        (proptest::collection::vec(busy, 0..4), proptest::collection::vec(arb_xop(na, nf, iw), 6..17))
            .prop_map(move |(seed_blocks, xops)| C08Case { base: base.clone(), seed_blocks, seed_advance, full_scan, seed_coins: vec![], xops })
    })
}

// ---------------------------------------------------------------------------------------------
// Model
// ---------------------------------------------------------------------------------------------

fn owner_token(i: u8) -> LockOwner {
    LockOwner::new([i + 1; 32])
}

fn model_pool(p: ShieldedPool) -> Pool {
    match p {
        ShieldedPool::Sapling => Pool::Sapling,
        ShieldedPool::Orchard => Pool::Orchard,
        ShieldedPool::Ironwood => Pool::Ironwood,
    }
}

fn wallet_pool(p: Pool) -> ShieldedPool {
    match p {
        Pool::Sapling => ShieldedPool::Sapling,
        Pool::Orchard => ShieldedPool::Orchard,
        Pool::Ironwood => ShieldedPool::Ironwood,
    }
}

enum AnyProp {
    Transfer(Prop),
    Shield(ShieldProp),
}

struct Stored {
    proposal: AnyProp,
    keys: Vec<NoteKey>,
    /// the transparent coins the proposal selects
    coins: Vec<CoinKey>,
    account: u8,
    executed: bool,
}

/// A transaction the wallet created and stored (`Execute`), and where it was mined, if it was.
struct ExecTx {
    tx: Transaction,
    /// expiry height as read back from the wallet
    expiry: u32,
    /// the spender record in the coin model when the transaction spends coins
    ttx: Option<usize>,
    coins: Vec<CoinKey>,
    /// a `propose_shielding*` transaction (every input transparent, every output the wallet's own)
    shielding: bool,
    /// (anchor height, id of the chain block at that height when the transaction was built), for shielded inputs
    anchor: Option<(u32, usize)>,
    /// (chain block id, height) once `MineExecuted` has put it into a block (at most once)
    mined_block: Option<(usize, u32)>,
    /// a compact-block scan shows the wallet that this transaction is mined: it spends shielded notes of the wallet or has
    /// a (change) output to the wallet. The scanner records a transaction only when it detects such a part; a
    /// transparent-to-foreign-recipient transaction (`propose_shielding_coinbase` to somebody else) is learnt mined only
    /// through `set_transaction_status`, which no operation here calls.
    detectable: bool,
}

/// A transaction of the transparent model: one that creates coins, spends coins, or both.
struct TTx {
    txid: [u8; 32],
    /// the full transaction when the wallet was given one (`None`: the wallet only saw `put_received_transparent_utxo`)
    tx: Option<Transaction>,
    /// the height at which the wallet was last told this transaction is mined, unless a later rewind went below it
    mined: Option<u32>,
    /// expiry height, known to the wallet only when it has the full transaction
    expiry: Option<u32>,
    /// the lowest height at which the wallet observed the transaction (documented `min_observed_height` rule)
    first_observed: u32,
    coinbase: bool,
    /// a rewind went below the height at which the transaction was mined
    rewound: bool,
}

#[derive(Clone, Debug)]
struct Coin {
    key: CoinKey,
    /// creating transaction (index into `Model::ttxs`)
    tx: usize,
    account: u8,
    slot: Slot,
    addr: TransparentAddress,
    value: u64,
    /// spending transactions the wallet was told about (indices into `Model::ttxs`)
    spenders: Vec<usize>,
}

/// the transparent addresses of one account, derived from its unified full viewing key
struct AcctAddrs {
    by_slot: BTreeMap<Slot, TransparentAddress>,
}

fn derive_addrs(ks: &KeySet) -> AcctAddrs {
    let apk = ks.ufvk.transparent().expect("chainsim accounts have a transparent key");
    let ext = apk.derive_external_ivk().expect("external ivk");
    let int = apk.derive_internal_ivk().expect("internal ivk");
    let eph = apk.derive_ephemeral_ivk().expect("ephemeral ivk");
    let idx = |i: u8| NonHardenedChildIndex::from_index(i as u32).expect("small index");
    let mut by_slot = BTreeMap::new();
    let (ua, _) = ks.ufvk.default_address(UnifiedAddressRequest::AllAvailableKeys).expect("default address");
    by_slot.insert(Slot::Default, *ua.transparent().expect("default UA has a transparent receiver"));
    for i in [1u8, 2] {
        by_slot.insert(Slot::Ext(i), ext.derive_address(idx(i)).expect("external address"));
    }
    for i in [0u8, 3] {
        by_slot.insert(Slot::Int(i), int.derive_address(idx(i)).expect("internal address"));
    }
    by_slot.insert(Slot::Eph(0), eph.derive_ephemeral_address(idx(0)).expect("ephemeral address"));
    AcctAddrs { by_slot }
}

#[derive(Default)]
struct Stats {
    attempts: u64,
    ok: u64,
    ok_locked: u64,
    multi_step: u64,
    canonical_anchor: u64,
    anchor_deeper: u64,
    crossing_attempts: u64,
    probes: u64,
    insuf_gaps: u64,
    insuf_nothing_selectable: u64,
    insuf_sendmax: u64,
    insuf_amount_near_total: u64,
    insuf_unexplained: u64,
    insuf_despite_spendable: u64,
    self_contradictions: u64,
    have_ge_need: u64,
    selected_notes: u64,
    witnesses_checked: u64,
    err_insufficient: u64,
    err_scan_required: u64,
    err_inputs_locked: u64,
    err_ineligible: u64,
    err_other: u64,
    request_invalid: u64,
    locked_exclusion: u64,
    under_confirmed: u64,
    spent_candidate: u64,
    orphan_candidate: u64,
    pending_spent_candidate: u64,
    wallet_pending_candidate: u64,
    selected_after_pending_expiry: u64,
    executes: u64,
    executed_ok: u64,
    execute_errors: BTreeSet<String>,
    execute_err: u64,
    execute_ineligible: u64,
    gaps_at_attempt: u64,
    nontrivial_attempts: u64,
    max_reasons: u32,
    override_selected_locked: u64,
    insufficient_despite_documented: u64,
    strict_conf_latitude: u64,
    selected_dust: u64,
    everything_partial: u64,
    unlocks: u64,
    unlock_removed: u64,
    clears: u64,
    lock_tables_compared: u64,
    locks_taken: u64,
    other_errors: BTreeSet<String>,
    // --- transparent ---
    coins_received: u64,
    coin_recv_rejected: u64,
    coin_recv_errors: BTreeSet<String>,
    coin_spends: u64,
    coin_spends_stored: u64,
    coin_remines: u64,
    coin_reorgs: u64,
    t_attempts: u64,
    t_attempts_with_coin: u64,
    t_nontrivial: u64,
    shield_attempts: u64,
    shield_coinbase_attempts: u64,
    transfer_t_attempts: u64,
    t_ok: u64,
    shield_ok: u64,
    shield_coinbase_ok: u64,
    t_ok_locked: u64,
    selected_coins: u64,
    coin_underconfirmed: u64,
    coin_locked_other: u64,
    coin_locked_admitted: u64,
    coin_spent_pending: u64,
    coin_spent_mined: u64,
    coin_unmined: u64,
    coin_unmined_zero_conf_ok: u64,
    coin_orphaned_by_rewind: u64,
    coin_other_account_requested: u64,
    coin_unrequested_address_present: u64,
    coin_immature_coinbase: u64,
    coin_mature_coinbase: u64,
    coin_dust: u64,
    coin_pending_expired: u64,
    selected_zero_conf_unmined: u64,
    selected_coin_after_spender_expiry: u64,
    selected_locked_coin_by_override: u64,
    selected_mature_coinbase: u64,
    selected_internal_coin_trusted_depth: u64,
    obs_other_account_coin_selected: u64,
    obs_shield_insufficient_despite_spendable: u64,
    known_orphaned_coinbase: u64,
    mixed_inputs_proposals: u64,
    t_err_insufficient: u64,
    t_err_other: u64,
    t_executed: u64,
    // --- mined wallet-created transactions ---
    mine_attempts: u64,
    mine_skipped: u64,
    mine_skipped_undetectable: u64,
    mine_refused_by_chain: u64,
    exec_mined: u64,
    exec_mined_shielding: u64,
    exec_mined_transfer: u64,
    shield_note_mined: u64,
    change_note_mined: u64,
    shield_inputs_diff_heights: u64,
    shield_single_coin_mined: u64,
    shield_zero_conf_input: u64,
    coins_remined_for_mining: u64,
    shield_note_in_window: u64,
    shield_note_in_window_needed: u64,
    shield_note_spendable: u64,
    selected_shield_note: u64,
    selected_mined_change_note: u64,
    selected_shield_note_weaker_reading: u64,
    window_amounts: u64,
    cycles: u64,
    cycles_mined: u64,
}

struct Model {
    index: BTreeMap<NoteKey, usize>,
    indexed: usize,
    /// note key -> (owner index, expiry height)
    locks: BTreeMap<NoteKey, (u8, u32)>,
    /// note key -> expiry heights of the stored, never-mined transactions that spend it
    pending: BTreeMap<NoteKey, Vec<u32>>,
    stored: Vec<Stored>,
    recipients: Vec<KeySet>,
    // --- transparent ---
    addrs: Vec<AcctAddrs>,
    ttxs: Vec<TTx>,
    coins: Vec<Coin>,
    coin_index: BTreeMap<CoinKey, usize>,
    /// coin key -> (owner index, expiry height)
    tlocks: BTreeMap<CoinKey, (u8, u32)>,
    /// counter behind made-up txids / lock times
    salt: u32,
    seed: [u8; 32],
    /// executed (stored) wallet transactions
    exec: Vec<ExecTx>,
    exec_by_txid: BTreeMap<[u8; 32], usize>,
    /// set by `Cycle`: the next proposal addresses this account instead of a rank
    prefer_account: Option<u8>,
}

impl Model {
    fn new(world: &World) -> Self {
        let mut seed = world.spec.seed;
        seed[3] ^= 0x77;
        seed[17] ^= 0x11;
        let recipients = (0..2u32).map(|i| KeySet::derive(&world.net, &seed, i)).collect();
        Model {
            index: BTreeMap::new(),
            indexed: 0,
            locks: BTreeMap::new(),
            pending: BTreeMap::new(),
            stored: vec![],
            recipients,
            addrs: world.accounts.iter().map(derive_addrs).collect(),
            ttxs: vec![],
            coins: vec![],
            coin_index: BTreeMap::new(),
            tlocks: BTreeMap::new(),
            salt: 0,
            seed,
            exec: vec![],
            exec_by_txid: BTreeMap::new(),
            prefer_account: None,
        }
    }

    /// The coin model learns whether each mined wallet-created transaction is mined as far as the wallet knows: it is
    /// while the block that holds it is scanned (a rewind below it un-mines it, a re-scan of the same block mines it again).
    fn sync_exec(&mut self, h: &Hist) {
        for e in &self.exec {
            if let (Some(tix), Some((bid, height))) = (e.ttx, e.mined_block) {
                self.ttxs[tix].mined = h.ledger.scanned.contains(&bid).then_some(height);
            }
        }
    }

    fn refresh(&mut self, chain: &Chain) {
        for n in &chain.notes[self.indexed..] {
            self.index.insert((n.pool, n.txid, n.out_index), n.id);
        }
        self.indexed = chain.notes.len();
    }

    fn next_salt(&mut self) -> u32 {
        self.salt += 1;
        self.salt
    }

    /// a made-up txid, a function of the case only
    fn fake_txid(&mut self) -> [u8; 32] {
        let s = self.next_salt();
        let mut out = [0u8; 32];
        for k in 0..4u8 {
            let mut input = self.seed.to_vec();
            input.extend_from_slice(&s.to_le_bytes());
            input.push(k);
            input.extend_from_slice(b"c08-coin-txid");
            out[k as usize * 8..k as usize * 8 + 8].copy_from_slice(&vcore::hash64(&input).to_le_bytes());
        }
        out
    }

    fn addr(&self, account: u8, slot: Slot) -> TransparentAddress {
        self.addrs[account as usize % self.addrs.len()].by_slot[&slot]
    }

    fn add_coin(&mut self, tx: usize, n: u32, account: u8, slot: Slot, addr: TransparentAddress, value: u64) {
        let key = (self.ttxs[tx].txid, n);
        let id = self.coins.len();
        self.coins.push(Coin { key, tx, account, slot, addr, value, spenders: vec![] });
        self.coin_index.insert(key, id);
    }

    /// The documented effect of a rewind to `height`: transactions mined above it are no longer mined.
    fn on_rewind(&mut self, height: u32) -> u64 {
        let mut n = 0;
        for t in self.ttxs.iter_mut() {
            if t.mined.map_or(false, |h| h > height) {
                t.mined = None;
                t.rewound = true;
                n += 1;
            }
        }
        n
    }
}

fn unknown_taddr(seed: &[u8; 32]) -> TransparentAddress {
    TransparentAddress::PublicKeyHash(hash20(seed, 0x5c))
}

/// A transparent-only v5 transaction (as the repository's own tests build them): the given inputs (or the coinbase
/// input), outputs and expiry height; `salt` (the lock time) makes the txid unique.
fn make_ttx(vin: &[CoinKey], vout: &[(TransparentAddress, u64)], expiry: u32, salt: u32, coinbase: bool) -> Transaction {
    let vin: Vec<TxIn<TAuthorized>> = if coinbase {
        vec![TxIn::from_parts(OutPoint::NULL, Script::default(), u32::MAX)]
    } else {
        vin.iter().map(|(t, n)| TxIn::from_parts(OutPoint::new(*t, *n), Script::default(), u32::MAX)).collect()
    };
    let vout: Vec<TxOut> = vout.iter().map(|(a, v)| TxOut::new(Zatoshis::from_u64(*v).expect("value in range"), a.script().into())).collect();
    let bundle = TBundle { vin, vout, authorization: TAuthorized };
    TransactionData::<zcash_primitives::transaction::Authorized>::from_parts(TxVersion::V5, BranchId::Nu5, salt, BlockHeight::from_u32(expiry), Some(bundle), None, None, None)
        .freeze()
        .expect("a transparent-only v5 transaction freezes")
}

#[derive(Clone, Copy, Debug)]
struct Pol {
    trusted: u32,
    untrusted: u32,
    /// owners whose locks the locked-input policy admits (bit mask)
    admits: u8,
    pools_mask: u8,
}

#[derive(Clone, Copy, Debug)]
struct NoteState {
    known: bool,
    mined: bool,
    /// spent by a transaction mined in a scanned block
    spent_mined: bool,
    /// spent by an un-mined (orphaned) transaction that is unexpired under the documented rule
    spent_pending: bool,
    any_link: bool,
    /// enough confirmations under the documented rule (internal scope -> trusted, else untrusted)
    conf_doc: bool,
    /// enough confirmations under the weakest documented reading (also trusted when the receiving
    /// transaction spends a wallet note, i.e. was plausibly created by the wallet)
    conf_weak: bool,
    /// enough confirmations under the strongest reading (untrusted for everything)
    conf_max: bool,
    /// active lock (owner, expiry) at the target height
    lock: Option<(u8, u32)>,
    pool_ok: bool,
    /// spent by a stored (pending) wallet transaction that is unexpired at the target height
    pending: bool,
    ever_pending: bool,
    /// the note is an internal-scope output of a wallet-created transaction that spends wallet coins: the documented
    /// shielding rule (`max_shielding_input_height`) decides its confirmations
    shield_rule: bool,
    /// an internal-scope output (change) of a wallet-created transfer without transparent inputs
    exec_change: bool,
    /// mined at or below the anchor of a proposal under this policy (mined_height + trusted <= target)
    anchored: bool,
}

fn tx_spends_wallet_note(chain: &Chain, n: &NoteRec) -> bool {
    chain.blocks[n.block_id].txs[n.tx_index as usize].spends.iter().any(|s| s.note.map_or(false, |m| matches!(chain.notes[m].who, Who::Wallet(_))))
}

fn note_state(h: &Hist, m: &Model, nid: usize, target: u32, pol: &Pol) -> NoteState {
    let chain = &h.chain;
    let ledger = &h.ledger;
    let n = &chain.notes[nid];
    let tip = target - 1;
    let unexpired = |b: usize| ledger.scanned.contains(&b) || chain.blocks[b].height + DEFAULT_TX_EXPIRY_DELTA >= tip + 1;
    let mut spent_mined = false;
    let mut spent_pending = false;
    let mut any_link = false;
    for (nn, sb, stx) in ledger.links.range((nid, 0, [0u8; 32])..=(nid, usize::MAX, [0xff; 32])) {
        debug_assert_eq!(*nn, nid);
        any_link = true;
        if ledger.scanned.contains(sb) {
            spent_mined = true;
        } else if let Some(e) = m.exec_by_txid.get(stx).map(|i| &m.exec[*i]) {
            // an un-mined spender the wallet created itself: its expiry height is known (documented tx_unexpired_condition)
            if e.expiry == 0 || e.expiry >= target {
                spent_pending = true;
            }
        } else if unexpired(*sb) {
            spent_pending = true;
        }
    }
    let internal = matches!(n.scope, ScopeSel::Internal);
    let deep = |req: u32| n.height + req <= target;
    let key = (n.pool, n.txid, n.out_index);
    let mut conf_doc = deep(if internal { pol.trusted } else { pol.untrusted });
    let mut conf_weak = deep(if internal || tx_spends_wallet_note(chain, n) { pol.trusted } else { pol.untrusted });
    let mut conf_max = deep(pol.untrusted);
    let exec = m.exec_by_txid.get(&n.txid).map(|i| &m.exec[*i]);
    let shield_rule = internal && exec.map_or(false, |e| !e.coins.is_empty());
    if let (true, Some(e)) = (shield_rule, exec) {
        // `ConfirmationsPolicy::confirmations_until_spendable`: "If the note was the output of a shielding transaction, we
        // use the mined height of the transparent source funds & their trust status instead of the height at which the
        // shielding transaction was mined"; `max_shielding_input_height` = "the maximum height at which any transparent
        // input to that transaction was received"; no transaction is ever marked trusted here, so the inputs need the
        // UNTRUSTED depth: max input height + untrusted <= target.
        let heights = |own_only: bool| -> Vec<Option<u32>> {
            e.coins.iter().filter_map(|k| m.coin_index.get(k)).map(|ci| &m.coins[*ci]).filter(|c| !own_only || Who::Wallet(c.account) == n.who).map(|c| m.ttxs[c.tx].mined).collect()
        };
        // strict reading: every transparent input of the wallet counts, one of unknown height is unconfirmed, and the
        // note's own transaction has the trusted depth as well
        let all = heights(false);
        conf_doc = deep(pol.trusted) && all.iter().all(|hh| hh.map_or(false, |hh| hh + pol.untrusted <= target));
        conf_max = conf_doc && deep(pol.untrusted);
        // weakest reading (asserted): only inputs of the note's own account whose mined height the wallet knows count;
        // without any, the note is an ordinary wallet-internal output (trusted depth of its own transaction); a
        // transfer that merely ADDS coins to shielded inputs is not "a shielding transaction" under this reading
        let own_max = heights(true).into_iter().flatten().max();
        conf_weak = match (e.shielding, own_max) {
            (true, Some(hh)) => hh + pol.untrusted <= target,
            _ => deep(pol.trusted),
        };
    }
    NoteState {
        known: ledger.known_notes.contains(&nid),
        mined: ledger.scanned.contains(&n.block_id),
        spent_mined,
        spent_pending,
        any_link,
        conf_doc,
        conf_weak,
        conf_max,
        shield_rule,
        exec_change: internal && exec.map_or(false, |e| e.coins.is_empty()),
        anchored: deep(pol.trusted),
        lock: m.locks.get(&key).copied().filter(|(_, exp)| *exp >= target),
        pool_ok: pol.pools_mask & (1 << (n.pool as u8)) != 0,
        pending: m.pending.get(&key).map_or(false, |v| v.iter().any(|exp| *exp == 0 || *exp >= target)),
        ever_pending: m.pending.contains_key(&key),
    }
}

fn account_notes(h: &Hist, account: u8) -> Vec<usize> {
    h.ledger.known_notes.iter().copied().filter(|n| h.chain.notes[*n].who == Who::Wallet(account)).collect()
}

/// the part of a proposal's policies that concerns transparent coins
#[derive(Clone, Debug)]
struct TPol {
    zero_conf: bool,
    trusted: u32,
    untrusted: u32,
    /// owners whose locks the locked-input policy admits (bit mask)
    admits: u8,
    /// `Some(a)`: every coin must belong to account `a` (transfers); `None`: address-scoped (shielding)
    account: Option<u8>,
    /// `Some`: every coin must have been received at one of these addresses
    from: Option<BTreeSet<TransparentAddress>>,
    /// 0 = all outputs, 1 = coinbase only, 2 = non-coinbase only
    coinbase_filter: u8,
}

#[derive(Clone, Copy, Debug)]
struct CoinState {
    mined: Option<u32>,
    /// a spender is mined (as far as the wallet was told and no rewind went below it)
    spent_mined: bool,
    /// a spender is not mined and unexpired at the target height (documented: expiry 0, or expiry >= target)
    spent_unexpired: bool,
    ever_spender: bool,
    /// not mined, and the creating transaction is unexpired at the target height (known expiry: 0 or >= target;
    /// unknown expiry: first observed height + 40 >= target)
    unmined_unexpired: bool,
    /// confirmations under the strict reading the wallet implements: every transparent output is untrusted (0 required under zero-conf)
    conf_doc: bool,
    /// confirmations under the weakest documented reading (`confirmations_until_spendable`): internal-scope
    /// receivers need the trusted depth only; zero-conf admits an un-mined, unexpired transaction
    conf_weak: bool,
    lock: Option<(u8, u32)>,
    coinbase: bool,
    /// coinbase only: mined with target - height >= 100
    mature: bool,
}

fn ttx_unexpired(t: &TTx, target: u32) -> bool {
    match t.expiry {
        Some(0) => true,
        Some(e) => e >= target,
        None => t.first_observed + DEFAULT_TX_EXPIRY_DELTA >= target,
    }
}

fn coin_state(m: &Model, ci: usize, target: u32, zero_conf: bool, trusted: u32, untrusted: u32) -> CoinState {
    let c = &m.coins[ci];
    let t = &m.ttxs[c.tx];
    let mut spent_mined = false;
    let mut spent_unexpired = false;
    for s in &c.spenders {
        let st = &m.ttxs[*s];
        if st.mined.is_some() {
            spent_mined = true;
        } else if ttx_unexpired(st, target) {
            spent_unexpired = true;
        }
    }
    let mined = t.mined.filter(|h| *h < target);
    let deep = |req: u32| mined.map_or(false, |h| h + req <= target);
    let unmined_unexpired = mined.is_none() && ttx_unexpired(t, target);
    let unmined_known_expiry = mined.is_none() && t.expiry.is_some();
    let internal = matches!(c.slot, Slot::Int(_));
    let (conf_doc, conf_weak) = if zero_conf {
        (mined.is_some() || (unmined_unexpired && unmined_known_expiry), mined.is_some() || unmined_unexpired)
    } else {
        (deep(untrusted), deep(if internal { trusted } else { untrusted }))
    };
    CoinState {
        mined,
        spent_mined,
        spent_unexpired,
        ever_spender: !c.spenders.is_empty(),
        unmined_unexpired,
        conf_doc,
        conf_weak,
        lock: m.tlocks.get(&c.key).copied().filter(|(_, exp)| *exp >= target),
        coinbase: t.coinbase,
        mature: t.coinbase && mined.map_or(false, |h| target - h >= COINBASE_MATURITY),
    }
}

/// a coin the strict reading lets a proposal select (what a coverable request may rely on)
fn coin_selectable(c: &Coin, s: &CoinState, admits: u8, coinbase_filter: u8) -> bool {
    !s.spent_mined
        && !s.spent_unexpired
        && s.conf_doc
        && c.value > MARGINAL_FEE
        && s.lock.map_or(true, |(o, _)| admits & (1 << o) != 0)
        && (!s.coinbase || s.mature)
        && match coinbase_filter {
            1 => s.coinbase,
            2 => !s.coinbase,
            _ => true,
        }
}

// ---------------------------------------------------------------------------------------------
// Addresses / requests
// ---------------------------------------------------------------------------------------------

fn hash20(seed: &[u8], tag: u8) -> [u8; 20] {
    let mut input = seed.to_vec();
    input.push(tag);
    let h = vcore::hash64(&input).to_le_bytes();
    let mut out = [0u8; 20];
    for (i, b) in out.iter_mut().enumerate() {
        *b = h[i % 8] ^ (i as u8).wrapping_mul(31) ^ tag;
    }
    out
}

fn build_address(h: &Hist, m: &Model, kind: AddrKind, rk: u8, own_account: u8) -> Option<Address> {
    use ReceiverRequirement::*;
    let ks = &m.recipients[rk as usize % m.recipients.len()];
    let ua = |ks: &KeySet, req: UnifiedAddressRequest| ks.ufvk.default_address(req).ok().map(|(a, _)| Address::Unified(a));
    match kind {
        AddrKind::Sapling => Some(Address::Sapling(ks.sapling.default_address().1)),
        AddrKind::UaFull => ua(ks, UnifiedAddressRequest::ALLOW_ALL),
        AddrKind::UaOrchard => ua(ks, UnifiedAddressRequest::ORCHARD),
        AddrKind::UaSapling => ua(ks, UnifiedAddressRequest::unsafe_custom(Omit, Require, Omit)),
        AddrKind::UaSaplingP2pkh => ua(ks, UnifiedAddressRequest::unsafe_custom(Omit, Require, Require)),
        AddrKind::P2pkh => Some(Address::Transparent(TransparentAddress::PublicKeyHash(hash20(&ks.seed, 1 + rk)))),
        AddrKind::P2sh => Some(Address::Transparent(TransparentAddress::ScriptHash(hash20(&ks.seed, 11 + rk)))),
        AddrKind::Tex => Some(Address::Tex(hash20(&ks.seed, 21 + rk))),
        AddrKind::OwnUa => {
            // another account of the wallet when there is one, else the spending account itself
            let n = h.world.accounts.len() as u8;
            let other = (own_account + 1 + rk) % n;
            ua(&h.world.accounts[other as usize], UnifiedAddressRequest::SHIELDED)
        }
    }
}

fn canonical_denominations() -> Vec<u64> {
    let mut v = vec![];
    for k in 6..=12u32 {
        for m in [1u64, 2, 5] {
            let d = m * 10u64.pow(k);
            if d <= 1_000_000_000_000 {
                v.push(d);
            }
        }
    }
    v.sort();
    v
}

fn resolve_amount(a: Amount, total: u64) -> u64 {
    let v = match a {
        Amount::Tiny(v) => v,
        Amount::Pct(p) => (total as u128 * p as u128 / 100) as u64,
        Amount::TotalMinus(k) => total.saturating_sub(k),
        Amount::TotalPlus(k) => total.saturating_add(k),
        Amount::Far => total.saturating_mul(3).saturating_add(1_000_000),
        // without a view of the window (thresholds, crossings): the total itself
        Amount::IntoWindow(_) => total,
        Amount::Canonical(i) => {
            let all = canonical_denominations();
            let fit: Vec<u64> = all.iter().copied().filter(|d| *d <= total.saturating_sub(10_000)).collect();
            if fit.is_empty() {
                all[0]
            } else {
                fit[fit.len() - 1 - (i as usize).min(fit.len() - 1)]
            }
        }
    };
    v.clamp(1, MAX_MONEY)
}

// ---------------------------------------------------------------------------------------------
// Wallet access helpers
// ---------------------------------------------------------------------------------------------

/// `Ok(Some(root))`: the tree produced a witness for `pos` at checkpoint `anchor`, hashing to `root` with leaf `cm`.
fn witness_root(db: &mut Db, pool: Pool, pos: u64, anchor: u32, cm: &[u8; 32]) -> Result<Option<[u8; 32]>, String> {
    let ah = BlockHeight::from_u32(anchor);
    match pool {
        Pool::Sapling => {
            let leaf = Option::<sapling::Node>::from(sapling::Node::from_bytes(*cm)).ok_or("model commitment is not a sapling node")?;
            db.with_sapling_tree_mut::<_, _, TreeErr>(|t| Ok(t.witness_at_checkpoint_id(Position::from(pos), &ah)?.map(|p| p.root(leaf).to_bytes()))).map_err(|e| format!("{e:?}"))
        }
        Pool::Orchard => {
            let leaf = Option::<MerkleHashOrchard>::from(MerkleHashOrchard::from_bytes(cm)).ok_or("model commitment is not an orchard node")?;
            db.with_orchard_tree_mut::<_, _, TreeErr>(|t| Ok(t.witness_at_checkpoint_id(Position::from(pos), &ah)?.map(|p| p.root(leaf).to_bytes()))).map_err(|e| format!("{e:?}"))
        }
        Pool::Ironwood => {
            let leaf = Option::<MerkleHashOrchard>::from(MerkleHashOrchard::from_bytes(cm)).ok_or("model commitment is not an orchard node")?;
            db.with_ironwood_tree_mut::<_, _, TreeErr>(|t| Ok(t.witness_at_checkpoint_id(Position::from(pos), &ah)?.map(|p| p.root(leaf).to_bytes())))
                .map_err(|e| format!("{e:?}"))
                .map(|o| o.flatten())
        }
    }
}

fn true_root(chain: &Chain, pool: Pool, height: u32) -> Option<[u8; 32]> {
    if height != chain.base_height && chain.block_at(height).is_none() {
        return None;
    }
    let st = chain.state_at(height);
    Some(match pool {
        Pool::Sapling => st.final_sapling_tree().root().to_bytes(),
        Pool::Orchard => st.final_orchard_tree().root().to_bytes(),
        Pool::Ironwood => st.final_ironwood_tree().root().to_bytes(),
    })
}

fn output_ref_key(r: &OutputRef) -> Option<NoteKey> {
    match r.pool() {
        PoolType::Shielded(p) => Some((model_pool(p), *r.txid().as_ref(), r.output_index())),
        PoolType::Transparent => None,
    }
}

fn output_ref_coin(r: &OutputRef) -> Option<CoinKey> {
    match r.pool() {
        PoolType::Transparent => Some((*r.txid().as_ref(), r.output_index())),
        PoolType::Shielded(_) => None,
    }
}

/// The documented effect of `lock_inputs` on the selected coins (expiry = target + for_blocks under the requesting
/// owner), and the wallet's own report of it: every selected coin is listed among the locked outputs of the account
/// that owns it.
#[allow(clippy::too_many_arguments)]
fn lock_selected_coins(h: &mut Hist, m: &mut Model, st: &mut Stats, coins: &[CoinKey], o: u8, fbk: u8, target: u32, step: &str) -> Result<(), Fail> {
    for k in coins {
        m.tlocks.insert(*k, (o, target + fbk as u32));
        st.locks_taken += 1;
    }
    for k in coins {
        let Some(ci) = m.coin_index.get(k) else { continue };
        let id = h.w.accounts[m.coins[*ci].account as usize];
        let got = h.w.db().get_locked_outputs(id).map_err(|e| Fail::new("get-locked-outputs-error", format!("{step}: {e:?}")))?;
        vensure!(
            got.iter().filter_map(output_ref_coin).any(|x| x == *k),
            "selected-input-not-locked",
            "{step}: the proposal was created with lock_inputs (owner {o}, for_blocks {fbk}, target {target}) but get_locked_outputs does not list its transparent input {}:{}",
            hex::encode(k.0),
            k.1
        );
    }
    Ok(())
}

/// Compares the wallet's reported lock set with the model's, for every account.
fn compare_lock_tables(h: &mut Hist, m: &Model, st: &mut Stats, step: &str) -> Result<(), Fail> {
    let Some(tip) = h.w.chain_height() else { return Ok(()) };
    for (ai, acct) in h.w.accounts.clone().iter().enumerate() {
        let got = h.w.db().get_locked_outputs(*acct).map_err(|e| Fail::new("get-locked-outputs-error", format!("{step}: {e:?}")))?;
        let mut got_keys = BTreeSet::new();
        let mut got_coins: BTreeSet<CoinKey> = BTreeSet::new();
        for r in &got {
            match output_ref_key(r) {
                Some(k) => {
                    vensure!(got_keys.insert(k), "locked-output-listed-twice", "{step}: get_locked_outputs lists {r:?} twice");
                }
                None => {
                    vensure!(!m.coins.is_empty(), "transparent-output-locked", "{step}: get_locked_outputs reports a transparent output {r:?}; the wallet holds none");
                    vensure!(got_coins.insert(output_ref_coin(r).expect("transparent ref")), "locked-output-listed-twice", "{step}: get_locked_outputs lists {r:?} twice");
                }
            }
        }
        let want_coins: BTreeSet<CoinKey> =
            m.tlocks.iter().filter(|(k, (_, exp))| *exp > tip && m.coin_index.get(*k).map_or(false, |c| m.coins[*c].account == ai as u8)).map(|(k, _)| *k).collect();
        if got_coins != want_coins {
            vfail!(
                "lock-table-mismatch:transparent",
                "{step}: account {ai}: get_locked_outputs (tip {tip}) lists the transparent outputs {:?} but the model's active locks on this account's coins are {:?}; model table {:?}",
                got_coins.iter().map(|k| (hex::encode(&k.0[..4]), k.1)).collect::<Vec<_>>(),
                want_coins.iter().map(|k| (hex::encode(&k.0[..4]), k.1)).collect::<Vec<_>>(),
                m.tlocks.iter().map(|(k, v)| ((hex::encode(&k.0[..4]), k.1), *v)).collect::<Vec<_>>()
            );
        }
        let want: BTreeSet<NoteKey> = m
            .locks
            .iter()
            .filter(|(k, (_, exp))| *exp > tip && m.index.get(*k).map_or(false, |n| h.chain.notes[*n].who == Who::Wallet(ai as u8)))
            .map(|(k, _)| *k)
            .collect();
        st.lock_tables_compared += 1;
        if got_keys != want {
            vfail!(
                "lock-table-mismatch",
                "{step}: account {ai}: get_locked_outputs (tip {tip}) = {:?} but the model's active locks are {:?}; model table {:?}",
                got_keys.iter().map(|k| (k.0, hex::encode(&k.1[..4]), k.2)).collect::<Vec<_>>(),
                want.iter().map(|k| (k.0, hex::encode(&k.1[..4]), k.2)).collect::<Vec<_>>(),
                m.locks.iter().map(|(k, v)| ((k.0, hex::encode(&k.1[..4]), k.2), *v)).collect::<Vec<_>>()
            );
        }
    }
    Ok(())
}

// ---------------------------------------------------------------------------------------------
// Proposal execution
// ---------------------------------------------------------------------------------------------

enum PErr {
    Insufficient { available: u64, required: u64 },
    ScanRequired,
    InputsLocked(OutputRef),
    /// `MaxSpendMode::Everything` with ineligible notes (documented), surfaced as a data-source error
    Ineligible,
    Other(String, String),
}

fn classify<DE: std::fmt::Debug, TE: std::fmt::Debug, SE: std::fmt::Debug, FE: std::fmt::Debug, CE: std::fmt::Debug, N: std::fmt::Debug>(e: WalletError<DE, TE, SE, FE, CE, N>) -> PErr {
    match e {
        WalletError::InsufficientFunds { available, required } => PErr::Insufficient { available: u64::from(available), required: u64::from(required) },
        // how the shielding selectors report that the gathered coins do not even cover the fee
        WalletError::Change(zcash_client_backend::fees::ChangeError::InsufficientFunds { available, required }) => PErr::Insufficient { available: u64::from(available), required: u64::from(required) },
        WalletError::ScanRequired => PErr::ScanRequired,
        WalletError::Proposal(ProposalError::InputsLocked(r)) => PErr::InputsLocked(r),
        WalletError::DataSource(ref d) if format!("{d:?}").contains("IneligibleNotes") => PErr::Ineligible,
        other => {
            let dbg = format!("{other:?}");
            let variant: String = dbg.chars().take_while(|c| c.is_alphanumeric() || *c == '(' || *c == '_').take(60).collect();
            PErr::Other(variant, dbg)
        }
    }
}

struct Resolved {
    /// (address, amount) of every requested payment (empty for send-max)
    pays: Vec<(Address, u64)>,
    pol: Pol,
    /// `Some`: the request permits transparent inputs under these rules
    tpol: Option<TPol>,
}

fn resolve_taddr(m: &Model, account: u8, a: AddrSel) -> TransparentAddress {
    let n = m.addrs.len() as u8;
    match a {
        AddrSel::Own(s) => m.addr(account, s),
        AddrSel::Other(s) => m.addr((account + 1) % n, s),
        AddrSel::Empty => m.addr(account, EMPTY_SLOT),
        AddrSel::Unknown => unknown_taddr(&m.seed),
    }
}

/// The model's view of the coins a request may draw on.
struct TView {
    /// (coin index, state) of every coin the request names (account / address scope), spent or not
    states: Vec<(usize, CoinState)>,
    /// value the strict reading lets the request select
    basis: u64,
    /// value of every named coin that has no mined spender, whatever else is wrong with it
    all_unspent: u64,
    /// value of named coins nothing is or ever was wrong with (mined at the untrusted depth, never locked, no spender ever seen)
    conservative: u64,
    n_candidates: u32,
}

impl TPol {
    /// the coin lies in the account / address scope the request names
    fn names(&self, c: &Coin) -> bool {
        self.account.map_or(true, |a| c.account == a) && self.from.as_ref().map_or(true, |f| f.contains(&c.addr))
    }
}

/// value the strict reading lets a request under `tp` select
fn t_basis(m: &Model, tp: &TPol, target: u32) -> u64 {
    m.coins
        .iter()
        .enumerate()
        .filter(|(_, c)| tp.names(c))
        .filter(|(ci, c)| coin_selectable(c, &coin_state(m, *ci, target, tp.zero_conf, tp.trusted, tp.untrusted), tp.admits, tp.coinbase_filter))
        .fold(0u64, |a, (_, c)| a.saturating_add(c.value))
}

/// Counts (generator/model side) what kinds of coins a request faces; `to_account` is the shielding destination.
fn t_view(m: &Model, st: &mut Stats, tp: &TPol, target: u32, to_account: Option<u8>) -> TView {
    let named = |c: &Coin| tp.names(c);
    let mut v = TView { states: vec![], basis: 0, all_unspent: 0, conservative: 0, n_candidates: 0 };
    let (mut underconf, mut locked_other, mut locked_adm, mut spent_pending, mut spent_mined, mut unmined, mut unmined_ok, mut orphaned, mut other_acct, mut unrequested, mut immature, mut mature, mut dust, mut pend_expired) =
        (false, false, false, false, false, false, false, false, false, false, false, false, false, false);
    for (ci, c) in m.coins.iter().enumerate() {
        let s = coin_state(m, ci, target, tp.zero_conf, tp.trusted, tp.untrusted);
        if !named(c) {
            if coin_selectable(c, &s, tp.admits, tp.coinbase_filter) {
                unrequested = true;
            }
            continue;
        }
        v.states.push((ci, s));
        if s.spent_mined {
            spent_mined = true;
            continue;
        }
        v.n_candidates += 1;
        v.all_unspent = v.all_unspent.saturating_add(c.value);
        if coin_selectable(c, &s, tp.admits, tp.coinbase_filter) {
            v.basis = v.basis.saturating_add(c.value);
            let t = &m.ttxs[c.tx];
            if s.lock.is_none() && !s.ever_spender && !m.tlocks.contains_key(&c.key) && t.mined.map_or(false, |h| h + tp.untrusted.max(1) <= target) && c.value > 2 * MARGINAL_FEE {
                v.conservative = v.conservative.saturating_add(c.value);
            }
        }
        underconf |= s.mined.is_some() && !s.conf_doc;
        unmined |= s.mined.is_none();
        unmined_ok |= s.mined.is_none() && s.conf_doc;
        orphaned |= s.mined.is_none() && m.ttxs[c.tx].rewound;
        match s.lock {
            Some((o, _)) if tp.admits & (1 << o) == 0 => locked_other = true,
            Some(_) => locked_adm = true,
            None => {}
        }
        spent_pending |= s.spent_unexpired;
        pend_expired |= s.ever_spender && !s.spent_unexpired;
        immature |= s.coinbase && !s.mature;
        mature |= s.coinbase && s.mature;
        dust |= c.value <= MARGINAL_FEE;
        other_acct |= to_account.map_or(false, |a| c.account != a);
    }
    st.t_attempts += 1;
    st.t_attempts_with_coin += (v.n_candidates > 0) as u64;
    st.coin_underconfirmed += underconf as u64;
    st.coin_locked_other += locked_other as u64;
    st.coin_locked_admitted += locked_adm as u64;
    st.coin_spent_pending += spent_pending as u64;
    st.coin_spent_mined += spent_mined as u64;
    st.coin_unmined += unmined as u64;
    st.coin_unmined_zero_conf_ok += unmined_ok as u64;
    st.coin_orphaned_by_rewind += orphaned as u64;
    st.coin_other_account_requested += other_acct as u64;
    st.coin_unrequested_address_present += unrequested as u64;
    st.coin_immature_coinbase += immature as u64;
    st.coin_mature_coinbase += mature as u64;
    st.coin_dust += dust as u64;
    st.coin_pending_expired += pend_expired as u64;
    let reasons = underconf as u32 + locked_other as u32 + spent_pending as u32 + spent_mined as u32 + unmined as u32 + immature as u32;
    if v.n_candidates >= 2 && reasons >= 1 {
        st.t_nontrivial += 1;
    }
    v
}

fn locked_input_policy(lp: LockPol) -> LockedInputPolicy {
    let set = |mask: u8| {
        let owners: BTreeSet<LockOwner> = (0..N_OWNERS).filter(|i| mask & (1 << i) != 0).map(owner_token).collect();
        NonEmptyBTreeSet::from_set(owners)
    };
    match lp {
        LockPol::Exclude => LockedInputPolicy::Exclude,
        LockPol::PreferUnlocked(mask) => set(mask).map(LockedInputPolicy::PreferUnlocked).unwrap_or(LockedInputPolicy::Exclude),
        LockPol::PreferLocked(mask) => set(mask).map(LockedInputPolicy::PreferLocked).unwrap_or(LockedInputPolicy::Exclude),
    }
}

fn admits_mask(lp: LockPol) -> u8 {
    match lp {
        LockPol::Exclude => 0,
        LockPol::PreferUnlocked(m) | LockPol::PreferLocked(m) => m & ((1 << N_OWNERS) - 1),
    }
}

fn shielded_pools(mask: u8) -> Vec<ShieldedPool> {
    Pool::ALL.iter().filter(|p| mask & (1 << (**p as u8)) != 0).map(|p| wallet_pool(*p)).collect()
}

/// `propose_transfer` with the greedy selector and the given change strategy; `None` = the payments do not form a valid request.
#[allow(clippy::too_many_arguments)]
fn run_transfer(
    db: &mut Db,
    net: &zcash_protocol::local_consensus::LocalNetwork,
    acct_id: zcash_client_sqlite::AccountUuid,
    pays: &[(Address, u64)],
    change: ChangeSel,
    fallback: ShieldedPool,
    policy: ConfirmationsPolicy,
    sp: &SpendPolicy,
    lock_req: Option<LockRequest>,
) -> Option<Result<Result<Prop, PErr>, String>> {
    let payments: Vec<Payment> = pays.iter().map(|(a, v)| Payment::without_memo(a.to_zcash_address(net), Zatoshis::from_u64(*v).unwrap())).collect();
    let request = TransactionRequest::new(payments).ok()?;
    let selector = GreedyInputSelector::<Db>::new();
    Some(match change {
        ChangeSel::Single => {
            let cs = SingleOutputChangeStrategy::<Db>::new(StandardFeeRule::Zip317, None, fallback, DustOutputPolicy::default());
            vcore::catch(|| propose_transfer::<_, _, _, _, Infallible>(db, net, acct_id, &selector, &cs, request, policy, sp, lock_req, None).map_err(classify))
        }
        ChangeSel::Multi { count, min } => {
            let cs = MultiOutputChangeStrategy::<Db>::new(
                StandardFeeRule::Zip317,
                None,
                fallback,
                DustOutputPolicy::default(),
                SplitPolicy::with_min_output_value(NonZeroUsize::new(count.max(1) as usize).unwrap(), Zatoshis::from_u64(min).unwrap()),
            );
            vcore::catch(|| propose_transfer::<_, _, _, _, Infallible>(db, net, acct_id, &selector, &cs, request, policy, sp, lock_req, None).map_err(classify))
        }
    })
}

/// Signature of the observation (outside C08's statement; DESIGN.md 9.4): input selection reports InsufficientFunds although the same wallet, asked for more
/// under the same policies, reports enough available value.
const SIG_SELF_CONTRADICTION: &str = "insufficient-funds-contradicts-own-available";
/// Signature of the observation (outside C08's statement): the InsufficientFunds error itself reports `available >= required`.
const SIG_HAVE_GE_NEED: &str = "insufficient-funds-reports-available-at-least-required";

#[allow(clippy::too_many_arguments)]
fn do_propose(ctx: &Ctx, h: &mut Hist, m: &mut Model, st: &mut Stats, spec: &ProposeSpec, step: &str) -> Result<(), Fail> {
    m.refresh(&h.chain);
    m.sync_exec(h);
    let Some(wtip) = h.w.chain_height() else { return Ok(()) };
    if wtip != h.chain.tip_height() {
        // cannot happen after ensure_tip_known; never judge a proposal against a different tip
        return Ok(());
    }
    let target = wtip + 1;
    let trusted = spec.trusted.max(1) as u32;
    let untrusted = trusted + spec.untrusted_extra as u32;

    // The API of each kind fixes some of the policy.
    let (lock_pol, pools_mask) = match &spec.kind {
        Kind::Transfer { .. } | Kind::Crossing { .. } => (spec.lock_pol, spec.pools_mask & 7),
        Kind::SaplingOnly { .. } => (spec.lock_pol, 1),
        Kind::Standard { .. } => (LockPol::Exclude, 7),
        Kind::SendMax { .. } => (spec.lock_pol, spec.pools_mask & 7),
    };
    let pol = Pol { trusted, untrusted, admits: admits_mask(lock_pol), pools_mask };
    // Only `propose_transfer` takes a caller-supplied spend policy, so only its kinds can be given a transparent source.
    let tsrc = spec.tsrc.as_ref().filter(|_| matches!(spec.kind, Kind::Transfer { .. } | Kind::SaplingOnly { .. } | Kind::Crossing { .. }));
    let zero_conf = tsrc.map_or(true, |t| t.zero_conf);
    let mk_tpol = |m: &Model, a: u8| -> Option<TPol> {
        tsrc.map(|t| TPol {
            zero_conf,
            trusted,
            untrusted,
            admits: pol.admits,
            account: Some(a),
            from: t.from.as_ref().map(|f| f.iter().map(|x| resolve_taddr(m, a, *x)).collect()),
            coinbase_filter: if t.only_coinbase { 1 } else { 2 },
        })
    };

    // `spec.account` is a RANK: accounts ordered by the value the model considers selectable right now
    // (so that most proposals address an account that holds something), ties by index.
    let account = {
        let mut ranked: Vec<(u64, u8)> = (0..h.world.accounts.len() as u8)
            .map(|a| {
                let v: u64 = account_notes(h, a)
                    .iter()
                    .map(|n| (h.chain.notes[*n].value, note_state(h, m, *n, target, &pol)))
                    .filter(|(v, s)| s.known && s.mined && !s.spent_mined && !s.spent_pending && !s.pending && s.conf_doc && s.pool_ok && *v > MARGINAL_FEE && s.lock.map_or(true, |(o, _)| pol.admits & (1 << o) != 0))
                    .map(|(v, _)| v)
                    .fold(0u64, |a, b| a.saturating_add(b));
                let v = v.saturating_add(mk_tpol(m, a).map_or(0, |tp| t_basis(m, &tp, target)));
                (v, a)
            })
            .collect();
        ranked.sort_by(|x, y| y.0.cmp(&x.0).then(x.1.cmp(&y.1)));
        match m.prefer_account {
            Some(a) if (a as usize) < h.world.accounts.len() => a,
            _ => ranked[(spec.account as usize).min(ranked.len() - 1)].1,
        }
    };
    let acct_id = h.w.accounts[account as usize];

    // Model view of the account at this moment.
    let notes = account_notes(h, account);
    let states: Vec<(usize, NoteState)> = notes.iter().map(|n| (*n, note_state(h, m, *n, target, &pol))).collect();
    let locked_out = |s: &NoteState| s.lock.map_or(false, |(o, _)| pol.admits & (1 << o) == 0);
    let live = |s: &NoteState| s.known && s.mined && !s.spent_mined && !s.spent_pending && !s.pending;
    let mut basis = 0u64;
    let mut all_unspent_mined = 0u64;
    let mut conservative = 0u64;
    let mut documented = 0u64;
    let mut dust_candidates = 0u32;
    // value of notes that only their confirmation window keeps from being selected
    let mut window = 0u64;
    let (mut shield_in_window, mut shield_spendable) = (false, false);
    let (mut n_live, mut n_underconf, mut n_locked_out, mut n_spent, mut n_orphan, mut n_pending, mut n_wallet_pending) = (0, 0, 0, 0, 0, 0, 0);
    for (nid, s) in &states {
        let v = h.chain.notes[*nid].value;
        if s.known && s.mined && !s.spent_mined {
            all_unspent_mined = all_unspent_mined.saturating_add(v);
        }
        if s.spent_mined {
            n_spent += 1;
        }
        if !s.mined {
            n_orphan += 1;
        }
        if s.mined && !s.spent_mined && s.spent_pending {
            n_pending += 1;
        }
        if s.mined && !s.spent_mined && s.pending {
            n_wallet_pending += 1;
        }
        if live(s) {
            n_live += 1;
            if !s.conf_doc {
                n_underconf += 1;
            }
            if s.conf_doc && locked_out(s) {
                n_locked_out += 1;
            }
            if v <= MARGINAL_FEE {
                dust_candidates += 1;
            }
            if s.pool_ok && !s.conf_doc && s.anchored && !locked_out(s) && v > MARGINAL_FEE {
                window = window.saturating_add(v);
            }
            if s.shield_rule && s.pool_ok && !locked_out(s) && v > MARGINAL_FEE {
                // a shielding output under the anchor that the documented rule (weakest reading) still withholds
                shield_in_window |= s.anchored && !s.conf_weak;
                shield_spendable |= s.anchored && s.conf_doc;
            }
            if s.pool_ok && s.conf_doc && !locked_out(s) && v > MARGINAL_FEE {
                basis = basis.saturating_add(v);
                documented = documented.saturating_add(v);
            }
            if s.pool_ok && s.conf_max && s.lock.is_none() && !s.any_link && !s.ever_pending && v > 2 * MARGINAL_FEE {
                conservative = conservative.saturating_add(v);
            }
        }
    }
    let tpol = mk_tpol(m, account);
    if let Some(tp) = &tpol {
        st.transfer_t_attempts += 1;
        let tv = t_view(m, st, tp, target, None);
        basis = basis.saturating_add(tv.basis);
        documented = documented.saturating_add(tv.basis);
        conservative = conservative.saturating_add(tv.conservative);
        all_unspent_mined = all_unspent_mined.saturating_add(tv.all_unspent);
    }
    let gaps_exist = !gaps(&h.chain, &h.ledger).is_empty();
    st.attempts += 1;
    st.shield_note_in_window += shield_in_window as u64;
    let window_amount = match &spec.kind {
        Kind::Transfer { pays, .. } => pays.iter().any(|p| matches!(p.amount, Amount::IntoWindow(_))),
        Kind::Standard { pay, .. } | Kind::SaplingOnly { pay, .. } => matches!(pay.amount, Amount::IntoWindow(_)),
        _ => false,
    };
    st.window_amounts += (window_amount && window > 0) as u64;
    st.shield_note_in_window_needed += (window_amount && shield_in_window) as u64;
    st.shield_note_spendable += shield_spendable as u64;
    st.under_confirmed += (n_underconf > 0) as u64;
    st.locked_exclusion += (n_locked_out > 0) as u64;
    st.spent_candidate += (n_spent > 0) as u64;
    st.orphan_candidate += (n_orphan > 0) as u64;
    st.pending_spent_candidate += (n_pending > 0) as u64;
    st.wallet_pending_candidate += (n_wallet_pending > 0) as u64;
    st.gaps_at_attempt += gaps_exist as u64;
    let ineligible_reasons = (n_underconf > 0) as u32 + (n_locked_out > 0) as u32 + (n_spent > 0) as u32 + (n_orphan > 0) as u32 + (n_pending > 0) as u32 + (n_wallet_pending > 0) as u32 + (gaps_exist && n_live > 0) as u32;
    if n_live >= 2 && ineligible_reasons >= 1 {
        st.nontrivial_attempts += 1;
    }
    if n_live >= 1 {
        st.max_reasons = st.max_reasons.max(ineligible_reasons);
    }

    // Resolve the request.
    let net = h.world.net;
    let policy = ConfirmationsPolicy::new(NonZeroU32::new(trusted).unwrap(), NonZeroU32::new(untrusted).unwrap(), zero_conf).expect("trusted <= untrusted");
    let lock_req = spec.lock.map(|(o, fb)| LockRequest::new(owner_token(o % N_OWNERS), fb as u32));
    let mut resolved = Resolved { pays: vec![], pol, tpol: tpol.clone() };
    // the spend policy of the `propose_transfer` kinds: shielded pools, locked-input policy and (sub-check "transparent") a transparent source
    let spend_policy = |pools_mask: u8| -> SpendPolicy {
        let sp = SpendPolicy::shielded_pools(shielded_pools(pools_mask)).with_locked_input_policy(locked_input_policy(lock_pol));
        match (tsrc, &tpol) {
            (Some(t), Some(tp)) => {
                let base = match &tp.from {
                    Some(f) => match nonempty::NonEmpty::from_vec(f.iter().copied().collect::<Vec<_>>()) {
                        Some(ne) => TransparentSpendPolicy::from_addresses(ne),
                        None => TransparentSpendPolicy::any_account_addr(),
                    },
                    None => TransparentSpendPolicy::any_account_addr(),
                };
                sp.with_transparent(base.with_coinbase(if t.only_coinbase { CoinbasePolicy::OnlyCoinbase } else { CoinbasePolicy::NonCoinbase }))
            }
            _ => sp,
        }
    };
    let mk_pays = |pays: &[Pay], h: &Hist, m: &Model| -> Option<Vec<(Address, u64)>> {
        let mut remaining = basis;
        let mut out = vec![];
        for p in pays {
            let addr = build_address(h, m, p.addr, p.rk, account)?;
            let amt = match p.amount {
                Amount::IntoWindow(pct) => remaining.saturating_add((window as u128 * pct as u128 / 100) as u64).clamp(1, MAX_MONEY),
                a => resolve_amount(a, remaining),
            };
            remaining = remaining.saturating_sub(amt);
            out.push((addr, amt));
        }
        Some(out)
    };
    let fb = |o: bool| if o { ShieldedPool::Orchard } else { ShieldedPool::Sapling };
    // what to re-ask with a huge amount when the wallet reports InsufficientFunds
    let mut probe: Option<(Vec<(Address, u64)>, ChangeSel, ShieldedPool, SpendPolicy)> = None;

    let result: Result<Result<Prop, PErr>, String> = match &spec.kind {
        Kind::Transfer { pays, change, fallback_orchard } => {
            let Some(ps) = mk_pays(pays, h, m) else {
                st.request_invalid += 1;
                return Ok(());
            };
            resolved.pays = ps.clone();
            let sp = spend_policy(pools_mask);
            probe = Some((ps.clone(), *change, fb(*fallback_orchard), sp.clone()));
            match run_transfer(h.w.db(), &net, acct_id, &ps, *change, fb(*fallback_orchard), policy, &sp, lock_req) {
                Some(r) => r,
                None => {
                    st.request_invalid += 1;
                    return Ok(());
                }
            }
        }
        Kind::SaplingOnly { pay, multi } => {
            let Some(ps) = mk_pays(std::slice::from_ref(pay), h, m) else {
                st.request_invalid += 1;
                return Ok(());
            };
            resolved.pays = ps.clone();
            let change = if *multi { ChangeSel::Multi { count: 3, min: 100_000 } } else { ChangeSel::Single };
            let sp = spend_policy(pools_mask);
            probe = Some((ps.clone(), change, ShieldedPool::Sapling, sp.clone()));
            match run_transfer(h.w.db(), &net, acct_id, &ps, change, ShieldedPool::Sapling, policy, &sp, lock_req) {
                Some(r) => r,
                None => {
                    st.request_invalid += 1;
                    return Ok(());
                }
            }
        }
        Kind::Crossing { rk, orchard_only_ua, idx } => {
            // one payment of a canonical ZIP 318 denomination to an Orchard receiver, sized to fit the largest
            // selectable Orchard note: the shape `propose_transfer` tries to build against a bucketed anchor
            let biggest = states.iter().filter(|(n, s)| h.chain.notes[*n].pool == Pool::Orchard && live(s) && s.conf_doc && !locked_out(s)).map(|(n, _)| h.chain.notes[*n].value).max().unwrap_or(0);
            let amt = resolve_amount(Amount::Canonical(*idx), biggest.saturating_sub(10_000));
            let Some(addr) = build_address(h, m, if *orchard_only_ua { AddrKind::UaOrchard } else { AddrKind::UaFull }, *rk, account) else {
                st.request_invalid += 1;
                return Ok(());
            };
            let ps = vec![(addr, amt)];
            resolved.pays = ps.clone();
            st.crossing_attempts += 1;
            let sp = spend_policy(pools_mask);
            probe = Some((ps.clone(), ChangeSel::Single, ShieldedPool::Orchard, sp.clone()));
            match run_transfer(h.w.db(), &net, acct_id, &ps, ChangeSel::Single, ShieldedPool::Orchard, policy, &sp, lock_req) {
                Some(r) => r,
                None => {
                    st.request_invalid += 1;
                    return Ok(());
                }
            }
        }
        Kind::Standard { pay, fallback_orchard } => {
            let Some(ps) = mk_pays(std::slice::from_ref(pay), h, m) else {
                st.request_invalid += 1;
                return Ok(());
            };
            resolved.pays = ps.clone();
            let (addr, amt) = ps[0].clone();
            probe = Some((ps.clone(), ChangeSel::Single, fb(*fallback_orchard), SpendPolicy::default()));
            let db = h.w.db();
            vcore::catch(|| {
                propose_standard_transfer_to_address::<_, _, Infallible>(
                    db,
                    &net,
                    StandardFeeRule::Zip317,
                    acct_id,
                    policy,
                    &addr,
                    Zatoshis::from_u64(amt).unwrap(),
                    None,
                    None,
                    fb(*fallback_orchard),
                    lock_req,
                    None,
                )
                .map_err(classify)
            })
        }
        Kind::SendMax { addr, rk, everything } => {
            let Some(a) = build_address(h, m, *addr, *rk, account) else {
                st.request_invalid += 1;
                return Ok(());
            };
            let mode = if *everything { MaxSpendMode::Everything } else { MaxSpendMode::MaxSpendable };
            let lip = locked_input_policy(lock_pol);
            let pools = shielded_pools(pools_mask);
            let db = h.w.db();
            vcore::catch(|| {
                propose_send_max_transfer::<_, _, _, Infallible>(db, &net, acct_id, &pools, &StandardFeeRule::Zip317, a.to_zcash_address(&net), None, mode, policy, &lip, lock_req).map_err(classify)
            })
        }
    };

    let result = match result {
        Ok(r) => r,
        Err(p) => vfail!(format!("propose-panic:{}", vcore::panic_site(&p)), "{step}: the proposal function panicked: {p}; spec {spec:?}"),
    };

    match result {
        Ok(proposal) => {
            st.ok += 1;
            let (keys, coins) = check_proposal(ctx, h, m, st, spec, &resolved, &states, account, target, &proposal, all_unspent_mined, step)?;
            if !coins.is_empty() {
                st.t_ok += 1;
                st.mixed_inputs_proposals += (!keys.is_empty()) as u64;
            }
            if let Some((o, fbk)) = spec.lock {
                let o = o % N_OWNERS;
                st.ok_locked += 1;
                st.t_ok_locked += (!coins.is_empty()) as u64;
                lock_selected_coins(h, m, st, &coins, o, fbk, target, step)?;
                // the documented effect of `lock_inputs`
                for k in &keys {
                    m.locks.insert(*k, (o, target + fbk as u32));
                    st.locks_taken += 1;
                }
                let got = h.w.db().get_locked_outputs(acct_id).map_err(|e| Fail::new("get-locked-outputs-error", format!("{step}: {e:?}")))?;
                let got: BTreeSet<NoteKey> = got.iter().filter_map(output_ref_key).collect();
                for k in &keys {
                    vensure!(
                        got.contains(k),
                        "selected-input-not-locked",
                        "{step}: the proposal was created with lock_inputs (owner {o}, for_blocks {fbk}, target {target}) but get_locked_outputs does not list its input {:?}",
                        (k.0, hex::encode(k.1), k.2)
                    );
                }
            }
            m.stored.push(Stored { proposal: AnyProp::Transfer(proposal), keys, coins, account, executed: false });
        }
        Err(PErr::Insufficient { available, required }) => {
            st.err_insufficient += 1;
            st.t_err_insufficient += tpol.is_some() as u64;
            let requested: u64 = resolved.pays.iter().map(|x| x.1).sum();
            if gaps_exist {
                st.insuf_gaps += 1;
            } else if basis == 0 {
                st.insuf_nothing_selectable += 1;
            } else if matches!(spec.kind, Kind::SendMax { .. }) {
                st.insuf_sendmax += 1;
            } else if requested.saturating_add(10_000 + MARGINAL_FEE * n_live as u64) > basis {
                st.insuf_amount_near_total += 1;
            } else {
                st.insuf_unexplained += 1;
                if std::env::var("VERIF_C08_DEBUG").is_ok() && available >= required {
                    eprintln!(
                        "[c08-debug] HAVE>=NEED {step}: available {available} required {required}; target {target}; notes {:?}",
                        states.iter().map(|(n, s)| (h.chain.notes[*n].pool, h.chain.notes[*n].value, h.chain.notes[*n].height, h.chain.notes[*n].scope, h.chain.notes[*n].position, *s)).collect::<Vec<_>>()
                    );
                }
                if std::env::var("VERIF_C08_DEBUG").is_ok() {
                    eprintln!("[c08-debug] unexplained insufficient: requested {requested} basis {basis} available {available} required {required} kind {:?} pol {pol:?}", spec.kind);
                }
            }
            let everything_scanned = !gaps_exist;
            // set when this failure already exhibits one of the two known liveness findings
            let mut explained_by_known = false;
            // The error's own numbers: "insufficient" with available >= required contradicts itself.
            if available >= required {
                st.have_ge_need += 1;
                explained_by_known = true;
                // OBSERVATION outside property C08's statement (C08 is a safety property: it does not promise that
                // a coverable request yields a proposal). Counted under a label, never reported (DESIGN.md 9.4).
                let _ = SIG_HAVE_GE_NEED;
            }
            // Self-consistency: ask the same wallet, same account, same policies for MORE than it can hold. The
            // `available` it reports then is everything it considers selectable; if that exceeds what the failed
            // request required (plus the fee of spending every note the account has), the two answers contradict.
            if let Some((ps, change, fallback, sp)) = &probe {
                let mut big = ps.clone();
                big[0].1 = MAX_MONEY / 4;
                st.probes += 1;
                if let Some(Ok(Err(PErr::Insufficient { available: avail2, required: req2 }))) = run_transfer(h.w.db(), &net, acct_id, &big, *change, *fallback, policy, sp, None) {
                    let margin = MARGINAL_FEE * (n_live as u64 + 8) + 50_000;
                    if avail2 >= required.saturating_add(margin) {
                        st.self_contradictions += 1;
                        explained_by_known = true;
                        // OBSERVATION outside property C08's statement, as above: counted, never reported.
                        let _ = SIG_SELF_CONTRADICTION;
                    }
                }
            }
            // Liveness is only flagged on overwhelming evidence (see the rule text in main()).
            if !explained_by_known && everything_scanned && dust_candidates == 0 && conservative >= required.saturating_add(100_000 + MARGINAL_FEE * (n_live as u64 + 8)) && !matches!(spec.kind, Kind::SendMax { .. }) {
                // Liveness is not part of C08's statement either: counted only.
                st.insuf_despite_spendable += 1;
            }
            if everything_scanned && documented >= required.saturating_add(50_000) {
                st.insufficient_despite_documented += 1;
                if std::env::var("VERIF_C08_DEBUG").is_ok() {
                    eprintln!(
                        "[c08-debug] {step}: InsufficientFunds {{ available: {available}, required: {required} }} but documented-spendable {documented} (conservative {conservative}); target {target} pol {pol:?}; notes {:?}",
                        states.iter().map(|(n, s)| (h.chain.notes[*n].pool, h.chain.notes[*n].value, h.chain.notes[*n].height, h.chain.notes[*n].scope, h.chain.notes[*n].position, *s)).collect::<Vec<_>>()
                    );
                }
            }
        }
        Err(PErr::ScanRequired) => st.err_scan_required += 1,
        Err(PErr::Ineligible) => st.err_ineligible += 1,
        Err(PErr::InputsLocked(r)) => {
            st.err_inputs_locked += 1;
            // documented: acquisition fails only on an ACTIVE lock of a DIFFERENT owner
            let req_owner = spec.lock.map(|(o, _)| o % N_OWNERS);
            let entry = output_ref_key(&r).and_then(|k| m.locks.get(&k).copied()).or_else(|| output_ref_coin(&r).and_then(|k| m.tlocks.get(&k).copied()));
            let ok = match (req_owner, entry) {
                (Some(ro), Some((lo, exp))) => lo != ro && exp >= target,
                _ => false,
            };
            vensure!(
                ok,
                "inputs-locked-without-foreign-lock",
                "{step}: InputsLocked({r:?}) but the model has lock entry {entry:?} for it (requesting owner {req_owner:?}, target {target})"
            );
        }
        Err(PErr::Other(variant, dbg)) => {
            st.err_other += 1;
            if st.other_errors.len() < 8 {
                st.other_errors.insert(format!("{variant} {}", dbg.chars().take(80).collect::<String>()));
            }
            if std::env::var("VERIF_C08_DEBUG").is_ok() {
                eprintln!("[c08-debug] other error: {} :: kind {:?}", dbg.chars().take(400).collect::<String>(), spec.kind);
            }
        }
    }
    // a failed proposal must leave the lock state untouched, a successful one must have changed exactly the selected inputs
    compare_lock_tables(h, m, st, step)?;
    Ok(())
}

#[allow(clippy::too_many_arguments)]
fn check_proposal(
    ctx: &Ctx,
    h: &mut Hist,
    m: &Model,
    st: &mut Stats,
    spec: &ProposeSpec,
    rs: &Resolved,
    states: &[(usize, NoteState)],
    account: u8,
    target: u32,
    p: &Prop,
    all_unspent_mined: u64,
    step: &str,
) -> Result<(Vec<NoteKey>, Vec<CoinKey>), Fail> {
    let pol = &rs.pol;
    let state_of: BTreeMap<usize, NoteState> = states.iter().copied().collect();
    vensure!(
        u32::from(p.min_target_height()) == target,
        "target-height-not-tip-plus-1",
        "{step}: proposal min_target_height {} but the wallet's chain tip is {} ",
        u32::from(p.min_target_height()),
        target - 1
    );
    let steps: Vec<_> = p.steps().iter().collect();
    if u32::from(p.confirmations_policy().trusted()) > pol.trusted {
        st.canonical_anchor += 1;
    }
    if steps.len() > 1 {
        st.multi_step += 1;
    }
    let mut seen: BTreeSet<NoteKey> = BTreeSet::new();
    let mut keys = vec![];
    let mut seen_coins: BTreeSet<CoinKey> = BTreeSet::new();
    let mut coin_keys: Vec<CoinKey> = vec![];
    let mut consumed_prior: BTreeSet<(usize, String)> = BTreeSet::new();
    let mut paid: Vec<(String, u64)> = vec![];
    let mut selected_total = 0u64;
    let mut fees_total = 0u64;
    for (si, s) in steps.iter().enumerate() {
        let mut in_total: u64 = match &rs.tpol {
            None => {
                vensure!(s.transparent_inputs().is_empty(), "transparent-input-selected", "{step}: step {si} selects transparent inputs {:?}; the spend policy permits none", s.transparent_inputs());
                0
            }
            Some(tp) => check_coins(ctx, m, st, tp, target, s.transparent_inputs(), &mut seen_coins, &mut coin_keys, &format!("{step}: step {si}"))?,
        };
        if let Some(inputs) = s.shielded_inputs() {
            let anchor = match s.anchor_height() {
                Some(a) => u32::from(a),
                None => vfail!("shielded-step-without-anchor", "{step}: step {si} spends shielded notes but has no anchor height"),
            };
            vensure!(anchor < target, "anchor-not-below-target", "{step}: step {si} anchor {anchor} is not below the target height {target}");
            if anchor + pol.trusted < target {
                st.anchor_deeper += 1;
            }
            for rn in inputs.notes().iter() {
                st.selected_notes += 1;
                let pool = model_pool(rn.note().pool());
                let key: NoteKey = (pool, *rn.txid().as_ref(), rn.output_index() as u32);
                let desc = format!("{pool:?} {}:{} value {}", hex::encode(key.1), key.2, u64::from(rn.note().value()));
                // (vi)
                vensure!(seen.insert(key), "input-selected-twice", "{step}: note {desc} appears twice among the proposal's inputs");
                keys.push(key);
                // (i)
                let Some(nid) = m.index.get(&key).copied() else {
                    vfail!("selected-unknown-note", "{step}: selected note {desc} does not exist in the model chain");
                };
                let n = h.chain.notes[nid].clone();
                vensure!(
                    n.who == Who::Wallet(account),
                    "selected-foreign-account-note",
                    "{step}: selected note {desc} belongs to {:?}, the proposal spends from account {account}",
                    n.who
                );
                vensure!(
                    u64::from(rn.note().value()) == n.value
                        && u64::from(rn.note_commitment_tree_position()) == n.position
                        && rn.spending_key_scope() == scope_of(n.scope)
                        && rn.mined_height().map(u32::from) == Some(n.height),
                    "selected-note-metadata-mismatch",
                    "{step}: selected note {desc}: wallet says position {:?} scope {:?} mined {:?}; model note {n:?}",
                    rn.note_commitment_tree_position(),
                    rn.spending_key_scope(),
                    rn.mined_height()
                );
                let Some(s0) = state_of.get(&nid).copied() else {
                    vfail!("selected-never-scanned-note", "{step}: selected note {desc} was never in a scanned block (model note {n:?})");
                };
                // (ii)
                vensure!(s0.mined, "selected-orphaned-note", "{step}: selected note {desc} was received in block {} at height {} which is not a scanned block of the current branch", n.block_id, n.height);
                vensure!(!s0.spent_mined, "selected-spent-note", "{step}: selected note {desc} is spent by a transaction mined in a scanned block (links {:?})", links_of(h, nid));
                vensure!(
                    !s0.spent_pending,
                    "selected-note-spent-by-unexpired-tx",
                    "{step}: selected note {desc} is spent by an un-mined transaction that is unexpired under the documented rule (first seen at height h, h + 40 >= target {target}); links {:?}",
                    links_of(h, nid)
                );
                if s0.ever_pending && !s0.pending {
                    st.selected_after_pending_expiry += 1;
                }
                vensure!(
                    !s0.pending,
                    "selected-note-spent-by-pending-tx",
                    "{step}: selected note {desc} is spent by a transaction the wallet stored with store_transactions_to_be_sent, unexpired at target {target} (expiry heights {:?})",
                    m.pending.get(&key)
                );
                // (iii)
                let stabilized = witness_stabilized(h, &key);
                if s0.shield_rule {
                    st.selected_shield_note += 1;
                }
                if s0.exec_change {
                    st.selected_mined_change_note += 1;
                }
                if !stabilized && s0.shield_rule {
                    let e = &m.exec[m.exec_by_txid[&n.txid]];
                    let inputs: Vec<(u8, Option<u32>)> = e.coins.iter().filter_map(|k| m.coin_index.get(k)).map(|ci| (m.coins[*ci].account, m.ttxs[m.coins[*ci].tx].mined)).collect();
                    vensure!(
                        s0.conf_weak,
                        "selected-underconfirmed-shielded-note",
                        "{step}: selected note {desc} (account {account}, mined at {}, scope {:?}) is an output of the wallet's own shielding transaction whose transparent inputs (account, mined height) are {inputs:?}; under policy trusted {} / untrusted {} at target {target} the documented rule (confirmations_until_spendable: the NEWEST transparent input's mined height, untrusted depth because no input transaction is marked trusted) needs max input height + {} <= {target}",
                        n.height,
                        n.scope,
                        pol.trusted,
                        pol.untrusted,
                        pol.untrusted
                    );
                    if !s0.conf_doc {
                        st.selected_shield_note_weaker_reading += 1;
                    }
                } else if !stabilized {
                    vensure!(
                        s0.conf_weak,
                        "selected-underconfirmed-note",
                        "{step}: selected note {desc} mined at {} scope {:?} under policy trusted {} / untrusted {} at target {target}: needs mined_height + required <= target",
                        n.height,
                        n.scope,
                        pol.trusted,
                        pol.untrusted
                    );
                    if !s0.conf_doc {
                        st.strict_conf_latitude += 1;
                    }
                }
                // (iv)
                if let Some((o, exp)) = s0.lock {
                    vensure!(
                        pol.admits & (1 << o) != 0,
                        "selected-locked-note",
                        "{step}: selected note {desc} is locked by owner {o} until {exp} (target {target}) and the locked-input policy admits owners mask {:#b}",
                        pol.admits
                    );
                    st.override_selected_locked += 1;
                }
                // pool restriction of the spend policy
                vensure!(s0.pool_ok, "selected-note-from-forbidden-pool", "{step}: selected note {desc} but the spend policy permits pools mask {:#b}", pol.pools_mask);
                // (v)
                match witness_root(h.w.db(), pool, n.position, anchor, &n.cm) {
                    Ok(Some(root)) => {
                        st.witnesses_checked += 1;
                        if let Some(tr) = true_root(&h.chain, pool, anchor) {
                            vensure!(
                                root == tr,
                                "selected-note-witness-root-wrong",
                                "{step}: witness of selected note {desc} at anchor {anchor} hashes to {} but the chain's {pool:?} root there is {}",
                                hex::encode(root),
                                hex::encode(tr)
                            );
                        } else {
                            vfail!("anchor-off-chain", "{step}: step anchor {anchor} is not a height of the current chain (tip {})", h.chain.tip_height());
                        }
                    }
                    Ok(None) => vfail!("selected-note-not-witnessable", "{step}: witness_at_checkpoint_id(position {}, anchor {anchor}) returned None for selected note {desc} (mined at {})", n.position, n.height),
                    Err(e) => vfail!("selected-note-not-witnessable", "{step}: witness_at_checkpoint_id(position {}, anchor {anchor}) failed for selected note {desc} (mined at {}): {e}", n.position, n.height),
                }
                if n.value <= MARGINAL_FEE {
                    st.selected_dust += 1;
                }
                in_total = in_total.checked_add(n.value).ok_or_else(|| Fail::new("input-total-overflow", format!("{step}: input total overflows")))?;
            }
        }
        selected_total += in_total;
        // prior-step outputs consumed by this step
        let mut prior_total = 0u64;
        for r in s.prior_step_inputs() {
            vensure!(r.step_index() < si, "prior-step-forward-reference", "{step}: step {si} consumes {r:?}");
            vensure!(consumed_prior.insert((r.step_index(), format!("{:?}", r.output_index()))), "prior-step-output-consumed-twice", "{step}: {r:?} consumed twice");
            let ps = steps[r.step_index()];
            let v = match r.output_index() {
                StepOutputIndex::Payment(i) => ps.transaction_request().payments().get(&i).and_then(|p| p.amount()).map(u64::from),
                StepOutputIndex::Change(i) => ps.balance().proposed_change().get(i).map(|c| u64::from(c.value())),
            };
            let Some(v) = v else { vfail!("prior-step-reference-invalid", "{step}: step {si} consumes {r:?} which does not exist") };
            prior_total += v;
        }
        // (vii) recomputed from the parts
        let mut pay_total = 0u64;
        for (_, pm) in s.transaction_request().payments() {
            let Some(a) = pm.amount() else { vfail!("payment-without-amount", "{step}: step {si} has a payment without amount") };
            pay_total += u64::from(a);
            paid.push((pm.recipient_address().encode(), u64::from(a)));
        }
        let change_total: u64 = s.balance().proposed_change().iter().map(|c| u64::from(c.value())).sum();
        let fee = u64::from(s.balance().fee_required());
        fees_total += fee;
        vensure!(
            in_total + prior_total == pay_total + change_total + fee,
            "step-does-not-balance",
            "{step}: step {si}: selected inputs {in_total} + prior-step outputs {prior_total} != payments {pay_total} + change {change_total} + fee {fee}"
        );
        vensure!(in_total + prior_total > 0, "step-without-inputs", "{step}: step {si} has no inputs at all");
    }
    // every ephemeral/prior output that a later step consumes is accounted; now the request itself
    match &spec.kind {
        Kind::SendMax { everything, .. } => {
            // send-max pays everything selected minus the fees to one recipient and produces no change that is not consumed
            let external: u64 = paid.last().map(|x| x.1).unwrap_or(0);
            vensure!(
                selected_total == external + fees_total,
                "send-max-leaves-value-behind",
                "{step}: send-max selected {selected_total} but pays {external} with total fees {fees_total}"
            );
            if *everything {
                let all_live: u64 = states.iter().filter(|(_, s)| s.known && s.mined && !s.spent_mined && !s.spent_pending && !s.pending && s.pool_ok).map(|(n, _)| h.chain.notes[*n].value).filter(|v| *v > MARGINAL_FEE).sum();
                if all_live != selected_total {
                    st.everything_partial += 1;
                }
            }
        }
        _ => {
            let mut want: Vec<(String, u64)> = rs.pays.iter().map(|(a, v)| (a.to_zcash_address(&h.world.net).encode(), *v)).collect();
            let mut got = paid.clone();
            want.sort();
            got.sort();
            vensure!(got == want, "payments-differ-from-request", "{step}: the steps pay {got:?} but the request was {want:?}");
        }
    }
    let requested: u64 = rs.pays.iter().map(|x| x.1).sum();
    vensure!(
        all_unspent_mined >= requested,
        "proposal-exceeds-funds",
        "{step}: a proposal paying {requested} was returned but ALL unspent mined notes (and unspent coins the request names) of account {account} total {all_unspent_mined}"
    );
    Ok((keys, coin_keys))
}

/// Judges the transparent inputs of one proposal step against the coin model; returns their total value.
#[allow(clippy::too_many_arguments)]
fn check_coins(
    ctx: &Ctx,
    m: &Model,
    st: &mut Stats,
    tp: &TPol,
    target: u32,
    inputs: &[WalletTransparentOutput<()>],
    seen: &mut BTreeSet<CoinKey>,
    keys: &mut Vec<CoinKey>,
    step: &str,
) -> Result<u64, Fail> {
    let mut total = 0u64;
    for o in inputs {
        st.selected_coins += 1;
        let key: CoinKey = (*o.outpoint().hash(), o.outpoint().n());
        let desc = format!("{}:{} value {}", hex::encode(key.0), key.1, u64::from(o.value()));
        // selected once
        vensure!(seen.insert(key), "coin-selected-twice", "{step}: coin {desc} appears twice among the proposal's inputs");
        keys.push(key);
        // exists
        let Some(ci) = m.coin_index.get(&key).copied() else {
            vfail!("selected-unknown-coin", "{step}: selected coin {desc} was never given to the wallet");
        };
        let c = &m.coins[ci];
        let t = &m.ttxs[c.tx];
        vensure!(
            u64::from(o.value()) == c.value && *o.recipient_address() == c.addr,
            "selected-coin-metadata-mismatch",
            "{step}: selected coin {desc} paying {:?}; the model coin has value {} at {:?}",
            o.recipient_address(),
            c.value,
            c.addr
        );
        // belongs to the requested account / addresses
        if let Some(a) = tp.account {
            vensure!(c.account == a, "selected-coin-of-other-account", "{step}: selected coin {desc} belongs to account {} ({:?}); the proposal spends from account {a}", c.account, c.slot);
        }
        if let Some(f) = &tp.from {
            vensure!(f.contains(&c.addr), "selected-coin-at-unrequested-address", "{step}: selected coin {desc} was received at {:?} (account {} {:?}), which is not among the requested source addresses {f:?}", c.addr, c.account, c.slot);
        }
        let s = coin_state(m, ci, target, tp.zero_conf, tp.trusted, tp.untrusted);
        // unspent
        vensure!(!s.spent_mined, "selected-spent-coin", "{step}: selected coin {desc} is spent by a mined transaction (spenders {:?})", spenders_of(m, ci));
        vensure!(
            !s.spent_unexpired,
            "selected-coin-spent-by-unexpired-tx",
            "{step}: selected coin {desc} is spent by a stored / mempool transaction that is unexpired at target {target} (spenders (mined, expiry) {:?})",
            spenders_of(m, ci)
        );
        if s.ever_spender {
            st.selected_coin_after_spender_expiry += 1;
        }
        // coinbase rules
        if s.coinbase && s.mined.is_none() {
            // a coinbase output whose block was rewound away: a coinbase transaction never returns to the mempool, so
            // the output has no confirmations and is certainly not mature
            let sig = SIG_ORPHANED_COINBASE;
            if ctx.known_hit(sig) {
                st.known_orphaned_coinbase += 1;
                total = total.checked_add(c.value).ok_or_else(|| Fail::new("input-total-overflow", format!("{step}: input total overflows")))?;
                continue;
            }
            vfail!(
                sig,
                "{step}: selected coin {desc} is an output of a COINBASE transaction that is not mined (rewound away: {}; zero-conf policy: {}): the documented coinbase maturity requirement ({COINBASE_MATURITY} confirmations) cannot hold for it",
                t.rewound,
                tp.zero_conf
            );
        }
        match tp.coinbase_filter {
            1 => vensure!(s.coinbase, "selected-non-coinbase-coin-under-coinbase-only", "{step}: selected coin {desc} is not a coinbase output but only coinbase outputs were requested"),
            2 => vensure!(!s.coinbase, "selected-coinbase-coin-under-non-coinbase-only", "{step}: selected coin {desc} is a coinbase output but only non-coinbase outputs were requested"),
            _ => {}
        }
        if s.coinbase {
            vensure!(
                s.mature,
                "selected-immature-coinbase-coin",
                "{step}: selected coinbase coin {desc} mined at {:?}, target {target}: fewer than {COINBASE_MATURITY} confirmations",
                s.mined
            );
            st.selected_mature_coinbase += 1;
        }
        // mined deep enough
        match s.mined {
            Some(hh) => {
                vensure!(
                    s.conf_weak,
                    "selected-underconfirmed-coin",
                    "{step}: selected coin {desc} ({:?}) mined at {hh} under policy trusted {} / untrusted {} / zero-conf {} at target {target}: needs mined_height + required <= target",
                    c.slot,
                    tp.trusted,
                    tp.untrusted,
                    tp.zero_conf
                );
                if !s.conf_doc {
                    st.selected_internal_coin_trusted_depth += 1;
                }
            }
            None => {
                vensure!(tp.zero_conf, "selected-unmined-coin", "{step}: selected coin {desc} is not mined (creating transaction: expiry {:?}, rewound {}) and the policy does not allow zero-conf spends", t.expiry, t.rewound);
                vensure!(
                    s.unmined_unexpired,
                    "selected-expired-unmined-coin",
                    "{step}: selected coin {desc} is an output of an un-mined transaction that has expired at target {target} (expiry {:?}, first observed {})",
                    t.expiry,
                    t.first_observed
                );
                st.selected_zero_conf_unmined += 1;
            }
        }
        // locks
        if let Some((lo, exp)) = s.lock {
            vensure!(
                tp.admits & (1 << lo) != 0,
                "selected-locked-coin",
                "{step}: selected coin {desc} is locked by owner {lo} until {exp} (target {target}) and the locked-input policy admits owners mask {:#b}",
                tp.admits
            );
            st.selected_locked_coin_by_override += 1;
        }
        total = total.checked_add(c.value).ok_or_else(|| Fail::new("input-total-overflow", format!("{step}: input total overflows")))?;
    }
    Ok(total)
}

fn spenders_of(m: &Model, ci: usize) -> Vec<(Option<u32>, Option<u32>)> {
    m.coins[ci].spenders.iter().map(|s| (m.ttxs[*s].mined, m.ttxs[*s].expiry)).collect()
}

/// Signature of the (repaired) finding: a proposal selects an output of a coinbase transaction whose block was rewound
/// away. `truncate_to_height` used to clear `tx_index`, the wallet's only coinbase marker, so that the output passed as a
/// never-expiring zero-confirmation output; the repair keeps `tx_index = 0` when un-mining. The `known_hit` call below is
/// only a reporting path: with the finding listed as fixed it is not taken and a recurrence is a violation.
const SIG_ORPHANED_COINBASE: &str = "selected-orphaned-coinbase-coin";

fn links_of(h: &Hist, nid: usize) -> Vec<(u32, bool)> {
    h.ledger.links.iter().filter(|(n, _, _)| *n == nid).map(|(_, b, _)| (h.chain.blocks[*b].height, h.ledger.scanned.contains(b))).collect()
}

fn witness_stabilized(h: &Hist, key: &NoteKey) -> bool {
    let p = key.0.prefix();
    let idx = key.0.output_index_col();
    h.w.conn()
        .query_row(
            &format!("SELECT rn.witness_stabilized FROM {p}_received_notes rn JOIN transactions t ON t.id_tx = rn.transaction_id WHERE t.txid = ?1 AND rn.{idx} = ?2"),
            rusqlite::params![&key.1[..], key.2],
            |r| r.get::<_, bool>(0),
        )
        .unwrap_or(false)
}

fn executable(sp: &Stored) -> bool {
    fn shape_ok<N>(p: &Proposal<StandardFeeRule, N>) -> bool {
        let s = p.steps().first();
        p.steps().len() == 1
            && s.payment_pools().values().all(|pt| matches!(pt, PoolType::Transparent | PoolType::Shielded(ShieldedPool::Sapling)))
            && s.balance().proposed_change().iter().all(|c| c.output_pool() == PoolType::Shielded(ShieldedPool::Sapling))
    }
    !sp.executed
        && (!sp.keys.is_empty() || !sp.coins.is_empty())
        && sp.keys.iter().all(|key| key.0 == Pool::Sapling)
        && match &sp.proposal {
            AnyProp::Transfer(p) => shape_ok(p),
            AnyProp::Shield(p) => shape_ok(p),
        }
}

/// `create_proposed_transactions` with the mock Sapling provers; the transaction is stored by `store_transactions_to_be_sent`.
fn build_and_store<N: std::fmt::Debug>(
    db: &mut Db,
    net: &zcash_protocol::local_consensus::LocalNetwork,
    usk: zcash_keys::keys::UnifiedSpendingKey,
    proposal: &Proposal<StandardFeeRule, N>,
) -> Result<Result<nonempty::NonEmpty<zcash_primitives::transaction::TxId>, String>, String> {
    use sapling::prover::mock::{MockOutputProver, MockSpendProver};
    vcore::catch(|| {
        create_proposed_transactions::<_, _, Infallible, _, Infallible, _>(db, net, &MockSpendProver, &MockOutputProver, &SpendingKeys::from_unified_spending_key(usk), OvkPolicy::Sender, proposal, None)
            .map_err(|e| format!("{e:?}"))
    })
}

/// Builds and stores the transaction of stored proposal `k` if it is single-step and Sapling/transparent-only
/// (the mock Sapling provers make that cheap; an Orchard-family bundle would need a real proving key).
fn do_execute(h: &mut Hist, m: &mut Model, st: &mut Stats, k: usize, step: &str) -> Result<(), Fail> {
    let account = m.stored[k].account;
    let usk = h.world.accounts[account as usize].usk.clone();
    let net = h.world.net;
    let wtip = h.w.chain_height();
    let db = h.w.db();
    let (target, r) = match &m.stored[k].proposal {
        AnyProp::Transfer(p) => (u32::from(p.min_target_height()), build_and_store(db, &net, usk, p)),
        AnyProp::Shield(p) => (u32::from(p.min_target_height()), build_and_store(db, &net, usk, p)),
    };
    match r {
        Err(p) => vfail!(format!("create-proposed-transactions-panic:{}", vcore::panic_site(&p)), "{step}: create_proposed_transactions panicked: {p}"),
        Ok(Err(e)) => {
            // a stale proposal (anchor checkpoint pruned, rewound chain, ...) may legitimately fail; nothing may change then
            st.execute_err += 1;
            if st.execute_errors.len() < 6 {
                st.execute_errors.insert(e.chars().take(120).collect());
            }
            if std::env::var("VERIF_C08_DEBUG").is_ok() {
                eprintln!("[c08-debug] execute failed: {}", e.chars().take(300).collect::<String>());
            }
        }
        Ok(Ok(txids)) => {
            st.executed_ok += 1;
            m.stored[k].executed = true;
            // expiry of the stored transaction: read back, and required to be a height the builder may have chosen
            let txid = txids.first();
            let expiry: Option<u32> = h
                .w
                .conn()
                .query_row("SELECT expiry_height FROM transactions WHERE txid = ?1", rusqlite::params![&txid.as_ref()[..]], |r| r.get(0))
                .map_err(|e| Fail::new("stored-tx-missing", format!("{step}: the stored transaction {txid:?} has no row: {e:?}")))?;
            let Some(expiry) = expiry else { vfail!("stored-tx-without-expiry", "{step}: the stored transaction {txid:?} has a NULL expiry height") };
            vensure!(expiry == 0 || (expiry >= target && expiry <= target + 1000), "stored-tx-expiry-out-of-range", "{step}: stored transaction expiry {expiry}, proposal target {target}");
            for key in m.stored[k].keys.clone() {
                m.pending.entry(key).or_default().push(expiry);
                // documented: locks are cleared when the inputs are recorded as spent by store_transactions_to_be_sent
                m.locks.remove(&key);
            }
            // the stored transaction also spends the proposal's coins
            let mut spender_ix = None;
            if !m.stored[k].coins.is_empty() {
                st.t_executed += 1;
                let tix = m.ttxs.len();
                spender_ix = Some(tix);
                m.ttxs.push(TTx { txid: *txid.as_ref(), tx: None, mined: None, expiry: Some(expiry), first_observed: wtip.unwrap_or(target), coinbase: false, rewound: false });
                for key in m.stored[k].coins.clone() {
                    if let Some(ci) = m.coin_index.get(&key).copied() {
                        m.coins[ci].spenders.push(tix);
                    }
                    m.tlocks.remove(&key);
                }
            }
            // keep the transaction itself (as the wallet stored it) so that it can be mined later
            let txid_bytes: [u8; 32] = *txid.as_ref();
            let raw = h.w.db().get_transaction(*txid).map_err(|e| Fail::new("stored-tx-missing", format!("{step}: get_transaction({txid:?}) failed: {e:?}")))?;
            let Some(raw) = raw else { vfail!("stored-tx-missing", "{step}: get_transaction({txid:?}) returns None right after store_transactions_to_be_sent") };
            let (shielding, anchor) = match &m.stored[k].proposal {
                AnyProp::Shield(_) => (true, None),
                AnyProp::Transfer(p) => (false, p.steps().first().anchor_height().filter(|_| p.steps().first().shielded_inputs().is_some()).map(u32::from)),
            };
            let anchor = anchor.map(|a| (a, h.chain.block_at(a).map_or(usize::MAX, |b| b.id)));
            let has_shielded_change = |c: &[zcash_client_backend::fees::ChangeValue]| c.iter().any(|c| matches!(c.output_pool(), PoolType::Shielded(_)));
            let detectable = !m.stored[k].keys.is_empty()
                || match &m.stored[k].proposal {
                    AnyProp::Shield(p) => has_shielded_change(p.steps().first().balance().proposed_change()),
                    AnyProp::Transfer(p) => has_shielded_change(p.steps().first().balance().proposed_change()),
                };
            m.exec_by_txid.insert(txid_bytes, m.exec.len());
            m.exec.push(ExecTx { tx: raw, expiry, ttx: spender_ix, coins: m.stored[k].coins.clone(), shielding, anchor, mined_block: None, detectable });
        }
    }
    m.refresh(&h.chain);
    compare_lock_tables(h, m, st, step)
}

// ---------------------------------------------------------------------------------------------
// Transparent coin operations
// ---------------------------------------------------------------------------------------------

fn resolve_expiry(e: ExpSel, tip: u32, mined_at: Option<u32>) -> u32 {
    match (e, mined_at) {
        (ExpSel::Never, _) => 0,
        (ExpSel::After(k), _) => tip + 1 + k as u32,
        // a mined transaction cannot have expired before it was mined
        (ExpSel::Stale, Some(hh)) => hh,
        (ExpSel::Stale, None) => tip.saturating_sub(2).max(1),
    }
}

fn note_rejected(st: &mut Stats, what: &str, e: &str) {
    st.coin_recv_rejected += 1;
    if st.coin_recv_errors.len() < 6 {
        st.coin_recv_errors.insert(format!("{what}: {}", e.chars().take(100).collect::<String>()));
    }
    if std::env::var("VERIF_C08_DEBUG").is_ok() {
        eprintln!("[c08-debug] {what} rejected: {}", e.chars().take(300).collect::<String>());
    }
}

/// The wallet learns of transparent outputs paying its accounts.
fn do_coin_recv(h: &mut Hist, m: &mut Model, st: &mut Stats, r: &CoinRecv, step: &str) -> Result<(), Fail> {
    let Some(tip) = h.w.chain_height() else { return Ok(()) };
    let base = h.base();
    if tip <= base {
        return Ok(());
    }
    let net = h.world.net;
    let na = h.world.accounts.len() as u8;
    let height = tip.saturating_sub(r.depth as u32).max(base + 1);
    let outs: Vec<(Option<(u8, Slot)>, TransparentAddress, u64)> = r
        .outs
        .iter()
        .map(|(shift, slot, v)| match slot {
            Some(s) => {
                let a = (r.account % na + *shift) % na;
                (Some((a, *s)), m.addr(a, *s), *v)
            }
            None => (None, unknown_taddr(&m.seed), *v),
        })
        .collect();
    match r.how {
        RecvHow::Put { known_height } => {
            // what `sync::refresh_utxos` does for every UTXO the server lists; each coin is an output of its own transaction
            for (owner, addr, v) in &outs {
                let txid = m.fake_txid();
                let n = m.salt % 3;
                let mined = known_height.then_some(height);
                let acct_id = owner.map(|(a, _)| h.w.accounts[a as usize]);
                let o = WalletTransparentOutput::from_parts(OutPoint::new(txid, n), TxOut::new(Zatoshis::from_u64(*v).expect("value"), addr.script().into()), mined.map(BlockHeight::from_u32), acct_id, None, None)
                    .expect("P2PKH script has a recipient address");
                match vcore::catch(|| h.w.db().put_received_transparent_utxo(&o).map_err(|e| format!("{e:?}"))) {
                    Err(p) => vfail!(format!("put-received-transparent-utxo-panic:{}", vcore::panic_site(&p)), "{step}: put_received_transparent_utxo panicked: {p}"),
                    Ok(Err(e)) => note_rejected(st, "put_received_transparent_utxo", &e),
                    Ok(Ok(_)) => {
                        let Some((a, s)) = owner else {
                            // an address no account owns: if the wallet keeps it anyway, selecting it later is caught as an unknown coin
                            continue;
                        };
                        let tix = m.ttxs.len();
                        m.ttxs.push(TTx { txid, tx: None, mined, expiry: None, first_observed: mined.map_or(tip, |hh| hh.min(tip)), coinbase: false, rewound: false });
                        m.add_coin(tix, n, *a, *s, *addr, *v);
                        st.coins_received += 1;
                    }
                }
            }
        }
        RecvHow::Full { .. } | RecvHow::Coinbase => {
            let (mined, expiry, coinbase) = match r.how {
                RecvHow::Full { mined, expiry } => {
                    let mh = mined.then_some(height);
                    (mh, resolve_expiry(expiry, tip, mh), false)
                }
                // coinbase transactions do not expire and are only ever seen mined
                _ => (Some(height), 0, true),
            };
            if outs.iter().all(|(o, _, _)| o.is_none()) {
                return Ok(());
            }
            let funding = (m.fake_txid(), 0u32);
            let salt = m.next_salt();
            let vout: Vec<(TransparentAddress, u64)> = outs.iter().map(|(_, a, v)| (*a, *v)).collect();
            let tx = make_ttx(&[funding], &vout, expiry, salt, coinbase);
            match vcore::catch(|| decrypt_and_store_transaction(&net, h.w.db(), &tx, mined.map(BlockHeight::from_u32)).map_err(|e| format!("{e:?}"))) {
                Err(p) => vfail!(format!("decrypt-and-store-panic:{}", vcore::panic_site(&p)), "{step}: decrypt_and_store_transaction panicked: {p}"),
                Ok(Err(e)) => note_rejected(st, "decrypt_and_store_transaction", &e),
                Ok(Ok(())) => {
                    let tix = m.ttxs.len();
                    m.ttxs.push(TTx { txid: *tx.txid().as_ref(), tx: Some(tx), mined, expiry: Some(expiry), first_observed: mined.unwrap_or(tip + 1), coinbase, rewound: false });
                    for (i, (owner, addr, v)) in outs.iter().enumerate() {
                        if let Some((a, s)) = owner {
                            m.add_coin(tix, i as u32, *a, *s, *addr, *v);
                            st.coins_received += 1;
                        }
                    }
                }
            }
        }
    }
    Ok(())
}

/// A transaction spending one or two of the wallet's coins is mined, seen in the mempool, or stored as sent by the wallet.
fn do_coin_spend(h: &mut Hist, m: &mut Model, st: &mut Stats, sp: &CoinSpend, step: &str) -> Result<(), Fail> {
    m.sync_exec(h);
    let Some(tip) = h.w.chain_height() else { return Ok(()) };
    let base = h.base();
    if tip <= base {
        return Ok(());
    }
    let target = tip + 1;
    let net = h.world.net;
    let need_mined = matches!(sp.how, SpendHow::Mined { .. });
    // coins without a mined spender (and, for a mined spender, mined themselves)
    let mut cands: Vec<usize> = (0..m.coins.len())
        .filter(|ci| {
            let c = &m.coins[*ci];
            !c.spenders.iter().any(|s| m.ttxs[*s].mined.is_some()) && (!need_mined || m.ttxs[c.tx].mined.is_some())
        })
        .collect();
    if cands.is_empty() {
        return Ok(());
    }
    let mut chosen: Vec<usize> = vec![];
    for sel in &sp.sels {
        if cands.is_empty() {
            break;
        }
        let k = vcore::pick_index(*sel, cands.len());
        chosen.push(cands.remove(k));
    }
    let owner = m.coins[chosen[0]].account;
    let acct_id = h.w.accounts[owner as usize];
    let vin: Vec<CoinKey> = chosen.iter().map(|c| m.coins[*c].key).collect();
    let mined_at = match sp.how {
        SpendHow::Mined { depth } => {
            let lo = chosen.iter().filter_map(|c| m.ttxs[m.coins[*c].tx].mined).max().unwrap_or(base + 1);
            Some(tip.saturating_sub(depth as u32).max(lo).max(base + 1).min(tip))
        }
        _ => None,
    };
    let expiry = resolve_expiry(sp.expiry, tip, mined_at);
    // outputs never exceed the inputs (the wallet computes the fee of a transaction whose inputs it knows)
    let in_total: u64 = chosen.iter().map(|c| m.coins[*c].value).fold(0u64, |a, b| a.saturating_add(b)).min(MAX_MONEY);
    let foreign = in_total / 4;
    let mut vout: Vec<(TransparentAddress, u64)> = vec![(TransparentAddress::PublicKeyHash(hash20(&m.seed, 0x6d)), foreign)];
    // only the `decrypt_and_store_transaction` paths show the wallet the spender's outputs
    let back = sp.back.filter(|_| !matches!(sp.how, SpendHow::Stored)).map(|(slot, v)| (slot, v.min(in_total - foreign)));
    if let Some((slot, v)) = back {
        vout.push((m.addr(owner, slot), v));
    }
    let salt = m.next_salt();
    let tx = make_ttx(&vin, &vout, expiry, salt, false);
    let res = match sp.how {
        SpendHow::Mined { .. } | SpendHow::Mempool => vcore::catch(|| decrypt_and_store_transaction(&net, h.w.db(), &tx, mined_at.map(BlockHeight::from_u32)).map_err(|e| format!("{e:?}"))),
        SpendHow::Stored => {
            let outpoints: Vec<OutPoint> = vin.iter().map(|(t, n)| OutPoint::new(*t, *n)).collect();
            let sent = SentTransaction::new(&tx, time::OffsetDateTime::UNIX_EPOCH, TargetHeight::from(target), acct_id, &[], Zatoshis::const_from_u64(10_000), &outpoints);
            vcore::catch(|| h.w.db().store_transactions_to_be_sent(&[sent]).map_err(|e| format!("{e:?}")))
        }
    };
    match res {
        Err(p) => vfail!(format!("store-spender-panic:{}", vcore::panic_site(&p)), "{step}: storing the spending transaction panicked: {p}"),
        Ok(Err(e)) => note_rejected(st, "store spender", &e),
        Ok(Ok(())) => {
            st.coin_spends += 1;
            let tix = m.ttxs.len();
            let first_observed = mined_at.unwrap_or(target);
            m.ttxs.push(TTx { txid: *tx.txid().as_ref(), tx: Some(tx), mined: mined_at, expiry: Some(expiry), first_observed, coinbase: false, rewound: false });
            for c in &chosen {
                m.coins[*c].spenders.push(tix);
            }
            if matches!(sp.how, SpendHow::Stored) {
                st.coin_spends_stored += 1;
                // documented: store_transactions_to_be_sent unlocks the outputs it records as spent
                for k in &vin {
                    m.tlocks.remove(k);
                }
            }
            if let Some((slot, v)) = back {
                let addr = m.addr(owner, slot);
                m.add_coin(tix, 1, owner, slot, addr, v);
                st.coins_received += 1;
            }
        }
    }
    Ok(())
}

/// A transaction whose coins the wallet believes un-mined is announced as mined at a height of the current branch.
fn do_coin_remine(h: &mut Hist, m: &mut Model, st: &mut Stats, sel: u32, depth: u8, step: &str) -> Result<(), Fail> {
    let Some(tip) = h.w.chain_height() else { return Ok(()) };
    let base = h.base();
    if tip <= base {
        return Ok(());
    }
    let creators: BTreeSet<usize> = m.coins.iter().map(|c| c.tx).collect();
    let cands: Vec<usize> = creators.into_iter().filter(|t| m.ttxs[*t].mined.is_none() && !m.ttxs[*t].coinbase).collect();
    if cands.is_empty() {
        return Ok(());
    }
    let tix = cands[vcore::pick_index(sel, cands.len())];
    let height = tip.saturating_sub(depth as u32).max(base + 1);
    announce_coin_tx_mined(h, m, st, tix, height, step).map(|_| ())
}

/// The wallet is told (the way it learnt of the coins: full transaction or `put_received_transparent_utxo`) that the
/// transaction `tix` of the coin model is mined at `height`. `Ok(false)`: the wallet rejected it (counted).
fn announce_coin_tx_mined(h: &mut Hist, m: &mut Model, st: &mut Stats, tix: usize, height: u32, step: &str) -> Result<bool, Fail> {
    let net = h.world.net;
    let res = match m.ttxs[tix].tx.clone() {
        Some(tx) => vcore::catch(|| decrypt_and_store_transaction(&net, h.w.db(), &tx, Some(BlockHeight::from_u32(height))).map_err(|e| format!("{e:?}"))),
        None => {
            let coins: Vec<Coin> = m.coins.iter().filter(|c| c.tx == tix).cloned().collect();
            let ids = h.w.accounts.clone();
            vcore::catch(|| {
                for c in &coins {
                    let o = WalletTransparentOutput::from_parts(
                        OutPoint::new(c.key.0, c.key.1),
                        TxOut::new(Zatoshis::from_u64(c.value).expect("value"), c.addr.script().into()),
                        Some(BlockHeight::from_u32(height)),
                        Some(ids[c.account as usize]),
                        None,
                        None,
                    )
                    .expect("P2PKH script has a recipient address");
                    h.w.db().put_received_transparent_utxo(&o).map_err(|e| format!("{e:?}"))?;
                }
                Ok(())
            })
        }
    };
    match res {
        Err(p) => vfail!(format!("remine-panic:{}", vcore::panic_site(&p)), "{step}: re-announcing a coin panicked: {p}"),
        Ok(Err(e)) => {
            note_rejected(st, "remine", &e);
            Ok(false)
        }
        Ok(Ok(())) => {
            st.coin_remines += 1;
            let t = &mut m.ttxs[tix];
            t.mined = Some(height);
            t.first_observed = t.first_observed.min(height);
            Ok(true)
        }
    }
}

/// `MineExecuted`: an executed (stored, never mined) transaction is mined in a new block `k` blocks above the tip and
/// scanned. `Ok(true)` when a block holding it was added.
fn do_mine_executed(h: &mut Hist, m: &mut Model, st: &mut Stats, ei: usize, k: u8, full_scan: Option<u16>, step: &str) -> Result<bool, Fail> {
    m.sync_exec(h);
    st.mine_attempts += 1;
    let Some(tip) = h.w.chain_height() else { return Ok(false) };
    if tip != h.chain.tip_height() || tip <= h.base() || m.exec[ei].mined_block.is_some() {
        st.mine_skipped += 1;
        return Ok(false);
    }
    let height = tip + k as u32 + 1;
    let e = &m.exec[ei];
    if !e.detectable {
        // scanning the block would not tell the wallet anything about this transaction
        st.mine_skipped_undetectable += 1;
        return Ok(false);
    }
    // consensus: not expired at the block that mines it; its anchor is a block of this branch
    let expiry_ok = e.expiry == 0 || e.expiry >= height;
    let anchor_ok = e.anchor.map_or(true, |(a, bid)| h.chain.block_at(a).map_or(usize::MAX, |b| b.id) == bid && (bid != usize::MAX || a == h.base()));
    // its coins: none spent by another mined transaction; each mined (as far as the wallet knows) or announceable as mined now
    let mut to_announce: Vec<usize> = vec![];
    let mut coins_ok = true;
    for key in &e.coins {
        let Some(ci) = m.coin_index.get(key).copied() else {
            coins_ok = false;
            break;
        };
        let c = &m.coins[ci];
        if c.spenders.iter().any(|s| Some(*s) != e.ttx && m.ttxs[*s].mined.is_some()) {
            coins_ok = false;
        }
        let t = &m.ttxs[c.tx];
        if t.mined.is_none() {
            // a coinbase transaction never returns to the chain; an expired transaction cannot be mined any more
            if t.coinbase || !t.expiry.map_or(true, |x| x == 0 || x >= tip) {
                coins_ok = false;
            } else if !to_announce.contains(&c.tx) {
                to_announce.push(c.tx);
            }
        } else if t.coinbase && t.mined.map_or(true, |hh| height < hh + COINBASE_MATURITY) {
            coins_ok = false;
        }
    }
    if !expiry_ok || !anchor_ok || !coins_ok {
        st.mine_skipped += 1;
        return Ok(false);
    }
    // the un-mined funding transactions are mined first (in the tip block, as far as the wallet is told)
    for tix in to_announce {
        if !announce_coin_tx_mined(h, m, st, tix, tip, step)? {
            st.mine_skipped += 1;
            return Ok(false);
        }
        st.coins_remined_for_mining += 1;
    }
    let from = h.chain.tip_height() + 1;
    if k > 0 {
        h.apply(&Op::AddEmpty(k as u16), step)?;
    }
    let tx = m.exec[ei].tx.clone();
    let mined = h.chain.add_block_with_tx(&h.world, &tx);
    sync(h, full_scan, from, step)?;
    let Some(mt) = mined else {
        // a note it spends is no longer spendable on this branch (spent by a mined transaction, or reorganised away)
        st.mine_refused_by_chain += 1;
        return Ok(false);
    };
    debug_assert_eq!(mt.height, height);
    m.exec[ei].mined_block = Some((mt.block_id, mt.height));
    m.refresh(&h.chain);
    m.sync_exec(h);
    st.exec_mined += 1;
    let e = &m.exec[ei];
    let internal_notes = mt.notes.iter().filter(|n| matches!(h.chain.notes[**n].scope, ScopeSel::Internal)).count() as u64;
    if e.coins.is_empty() {
        st.exec_mined_transfer += 1;
        st.change_note_mined += (internal_notes > 0) as u64;
    } else {
        st.exec_mined_shielding += e.shielding as u64;
        st.shield_note_mined += (internal_notes > 0) as u64;
        let hs: BTreeSet<u32> = e.coins.iter().filter_map(|k| m.coin_index.get(k)).filter_map(|ci| m.ttxs[m.coins[*ci].tx].mined).collect();
        st.shield_inputs_diff_heights += (hs.len() >= 2) as u64;
        st.shield_single_coin_mined += (e.coins.len() == 1) as u64;
        // an input that had at most two blocks on top of it when the shielding transaction was mined
        st.shield_zero_conf_input += hs.iter().any(|hh| *hh + 2 >= tip) as u64;
    }
    Ok(true)
}

fn resolve_threshold(a: Amount, total: u64) -> u64 {
    match a {
        Amount::Tiny(v) => v,
        other => resolve_amount(other, total),
    }
}

/// `propose_shielding` / `propose_shielding_coinbase`, judged against the coin model.
fn do_shield(ctx: &Ctx, h: &mut Hist, m: &mut Model, st: &mut Stats, spec: &ShieldSpec, step: &str) -> Result<(), Fail> {
    m.refresh(&h.chain);
    m.sync_exec(h);
    let Some(wtip) = h.w.chain_height() else { return Ok(()) };
    if wtip != h.chain.tip_height() {
        return Ok(());
    }
    let target = wtip + 1;
    // `propose_shielding_coinbase` takes no confirmations policy: coinbase maturity (100 blocks) is the only depth rule
    let (trusted, untrusted, zero_conf, filter) = match spec.kind {
        ShieldKind::Shield { filter, .. } => {
            let t = spec.trusted.max(1) as u32;
            (t, t + spec.untrusted_extra as u32, spec.zero_conf, filter)
        }
        ShieldKind::Coinbase { .. } => (1, 1, true, 1),
    };
    let admits = admits_mask(spec.lock_pol);
    let mk_from = |m: &Model, a: u8| -> Vec<TransparentAddress> {
        let mut v: Vec<TransparentAddress> = vec![];
        if spec.all_funded {
            for c in &m.coins {
                if c.account == a && !(spec.skip_ephemeral && matches!(c.slot, Slot::Eph(_))) && !v.contains(&c.addr) {
                    v.push(c.addr);
                }
            }
        }
        for x in &spec.from {
            let t = resolve_taddr(m, a, *x);
            if !v.contains(&t) {
                v.push(t);
            }
        }
        v
    };
    let mk_tpol = |m: &Model, a: u8| TPol { zero_conf, trusted, untrusted, admits, account: None, from: Some(mk_from(m, a).into_iter().collect()), coinbase_filter: filter };
    let account = {
        let mut ranked: Vec<(u64, u8)> = (0..h.world.accounts.len() as u8).map(|a| (t_basis(m, &mk_tpol(m, a), target), a)).collect();
        ranked.sort_by(|x, y| y.0.cmp(&x.0).then(x.1.cmp(&y.1)));
        ranked[(spec.account as usize).min(ranked.len() - 1)].1
    };
    let acct_id = h.w.accounts[account as usize];
    let from_vec = mk_from(m, account);
    let tp = mk_tpol(m, account);
    let tv = t_view(m, st, &tp, target, Some(account));
    let threshold = resolve_threshold(spec.threshold, tv.basis).min(MAX_MONEY);
    let net = h.world.net;
    let policy = ConfirmationsPolicy::new(NonZeroU32::new(trusted).unwrap(), NonZeroU32::new(untrusted).unwrap(), zero_conf).expect("trusted <= untrusted");
    let lock_req = spec.lock.map(|(o, fb)| LockRequest::new(owner_token(o % N_OWNERS), fb as u32));
    let selector = GreedyInputSelector::<Db>::new().with_locked_input_policy(locked_input_policy(spec.lock_pol));
    let thr = Zatoshis::from_u64(threshold).expect("threshold in range");
    let mut pay_to: Option<Address> = None;
    let mut limit_n: Option<usize> = None;
    let result: Result<Result<ShieldProp, PErr>, String> = match spec.kind {
        ShieldKind::Shield { filter, fallback_orchard, multi } => {
            st.shield_attempts += 1;
            let cf = match filter {
                1 => CoinbaseFilter::CoinbaseOnly,
                2 => CoinbaseFilter::NonCoinbaseOnly,
                _ => CoinbaseFilter::AllTransparentOutputs,
            };
            let fallback = if fallback_orchard { ShieldedPool::Orchard } else { ShieldedPool::Sapling };
            let db = h.w.db();
            if multi {
                let cs = MultiOutputChangeStrategy::<Db>::new(
                    StandardFeeRule::Zip317,
                    None,
                    fallback,
                    DustOutputPolicy::default(),
                    SplitPolicy::with_min_output_value(NonZeroUsize::new(2).unwrap(), Zatoshis::const_from_u64(100_000)),
                );
                vcore::catch(|| propose_shielding::<_, _, _, _, Infallible>(db, &net, &selector, &cs, thr, &from_vec, acct_id, policy, cf, lock_req).map_err(classify))
            } else {
                let cs = SingleOutputChangeStrategy::<Db>::new(StandardFeeRule::Zip317, None, fallback, DustOutputPolicy::default());
                vcore::catch(|| propose_shielding::<_, _, _, _, Infallible>(db, &net, &selector, &cs, thr, &from_vec, acct_id, policy, cf, lock_req).map_err(classify))
            }
        }
        ShieldKind::Coinbase { to, rk, limit } => {
            st.shield_coinbase_attempts += 1;
            let Some(addr) = build_address(h, m, to, rk, account) else {
                st.request_invalid += 1;
                return Ok(());
            };
            pay_to = Some(addr.clone());
            limit_n = limit.map(|l| l as usize);
            let za = addr.to_zcash_address(&net);
            let db = h.w.db();
            vcore::catch(|| propose_shielding_coinbase::<_, _, _, _, Infallible>(db, &net, &selector, &StandardFeeRule::Zip317, thr, &from_vec, za, None, limit_n, lock_req).map_err(classify))
        }
    };
    let result = match result {
        Ok(r) => r,
        Err(p) => vfail!(format!("propose-panic:{}", vcore::panic_site(&p)), "{step}: the shielding proposal function panicked: {p}; spec {spec:?}"),
    };
    if std::env::var("VERIF_C08_DEBUG").is_ok() && result.is_err() && tv.basis > 0 && threshold.saturating_add(50_000) < tv.basis {
        let e = match &result {
            Err(PErr::Insufficient { available, required }) => format!("Insufficient {{ available {available}, required {required} }}"),
            Err(PErr::Other(v, d)) => format!("{v} {}", d.chars().take(120).collect::<String>()),
            Err(PErr::InputsLocked(_)) => "InputsLocked".to_string(),
            _ => "other".to_string(),
        };
        eprintln!(
            "[c08-debug] shield-failed-with-basis kind {:?} basis {} threshold {threshold} target {target} zero_conf {zero_conf} untrusted {untrusted}: {e}; coins {:?}",
            spec.kind,
            tv.basis,
            tv.states.iter().map(|(ci, s)| (m.coins[*ci].value, m.coins[*ci].slot, s.mined, s.coinbase, s.mature, s.conf_doc, s.lock, s.spent_mined, s.spent_unexpired)).collect::<Vec<_>>()
        );
    }
    match result {
        Ok(p) => {
            st.ok += 1;
            st.t_ok += 1;
            match spec.kind {
                ShieldKind::Shield { .. } => st.shield_ok += 1,
                ShieldKind::Coinbase { .. } => st.shield_coinbase_ok += 1,
            }
            vensure!(
                u32::from(p.min_target_height()) == target,
                "target-height-not-tip-plus-1",
                "{step}: proposal min_target_height {} but the wallet's chain tip is {} ",
                u32::from(p.min_target_height()),
                target - 1
            );
            let mut seen: BTreeSet<CoinKey> = BTreeSet::new();
            let mut coins: Vec<CoinKey> = vec![];
            let mut selected_total = 0u64;
            let mut fees_total = 0u64;
            let mut paid: Vec<(String, u64)> = vec![];
            for (si, s) in p.steps().iter().enumerate() {
                vensure!(s.shielded_inputs().is_none(), "shielding-step-with-shielded-inputs", "{step}: step {si} of a shielding proposal spends shielded notes");
                vensure!(s.prior_step_inputs().is_empty(), "prior-step-reference-invalid", "{step}: step {si} of a shielding proposal consumes {:?}", s.prior_step_inputs());
                let in_total = check_coins(ctx, m, st, &tp, target, s.transparent_inputs(), &mut seen, &mut coins, &format!("{step}: step {si}"))?;
                selected_total += in_total;
                let mut pay_total = 0u64;
                for (_, pm) in s.transaction_request().payments() {
                    let Some(a) = pm.amount() else { vfail!("payment-without-amount", "{step}: step {si} has a payment without amount") };
                    pay_total += u64::from(a);
                    paid.push((pm.recipient_address().encode(), u64::from(a)));
                }
                let change_total: u64 = s.balance().proposed_change().iter().map(|c| u64::from(c.value())).sum();
                let fee = u64::from(s.balance().fee_required());
                fees_total += fee;
                vensure!(
                    in_total == pay_total + change_total + fee,
                    "step-does-not-balance",
                    "{step}: step {si}: selected transparent inputs {in_total} != payments {pay_total} + change {change_total} + fee {fee}"
                );
                vensure!(in_total > 0, "step-without-inputs", "{step}: step {si} has no inputs at all");
                if let Some(l) = limit_n {
                    vensure!(s.transparent_inputs().len() <= l, "shielding-input-limit-exceeded", "{step}: step {si} selects {} inputs, the caller's limit is {l}", s.transparent_inputs().len());
                }
            }
            match (&spec.kind, &pay_to) {
                (ShieldKind::Coinbase { .. }, Some(addr)) => {
                    // documented: one payment of (input total - fee) to `to_address`, no change; the threshold applies to that amount
                    let want = addr.to_zcash_address(&net).encode();
                    vensure!(paid.len() == 1 && paid[0].0 == want, "payments-differ-from-request", "{step}: the steps pay {paid:?} but the coinbase value was to be shielded to {want}");
                    vensure!(
                        selected_total.saturating_sub(fees_total) >= threshold,
                        "shielding-below-threshold",
                        "{step}: the proposal shields {selected_total} - fee {fees_total}, less than the shielding threshold {threshold}"
                    );
                }
                _ => {
                    // documented: a shielding transaction sends everything to the wallet's own shielded addresses (no payments),
                    // and supplies at least the requested value
                    vensure!(paid.is_empty(), "payments-differ-from-request", "{step}: a shielding proposal pays {paid:?}");
                    vensure!(selected_total >= threshold, "shielding-below-threshold", "{step}: the proposal selects {selected_total}, less than the shielding threshold {threshold}");
                }
            }
            vensure!(
                tv.all_unspent >= selected_total,
                "proposal-exceeds-funds",
                "{step}: the proposal selects {selected_total} but ALL unspent coins at the requested addresses total {}",
                tv.all_unspent
            );
            for k in &coins {
                if let Some(ci) = m.coin_index.get(k) {
                    if m.coins[*ci].account != account {
                        // OBSERVATION (not asserted): `propose_shielding` is documented as address-scoped ("shield all of the funds
                        // belonging to the provided set of addresses"); a requested address of ANOTHER account is honoured.
                        st.obs_other_account_coin_selected += 1;
                    }
                }
            }
            if let Some((o, fbk)) = spec.lock {
                let o = o % N_OWNERS;
                st.ok_locked += 1;
                st.t_ok_locked += 1;
                lock_selected_coins(h, m, st, &coins, o, fbk, target, step)?;
            }
            m.stored.push(Stored { proposal: AnyProp::Shield(p), keys: vec![], coins, account, executed: false });
        }
        Err(PErr::Insufficient { required, .. }) => {
            st.err_insufficient += 1;
            st.t_err_insufficient += 1;
            // Liveness is not part of C08: counted only, on overwhelming evidence.
            let has_eph = tv.states.iter().any(|(ci, _)| matches!(m.coins[*ci].slot, Slot::Eph(_)));
            if matches!(spec.kind, ShieldKind::Shield { .. }) && !has_eph && tv.conservative >= required.saturating_add(100_000 + MARGINAL_FEE * (tv.n_candidates as u64 + 8)) {
                st.obs_shield_insufficient_despite_spendable += 1;
                if std::env::var("VERIF_C08_DEBUG").is_ok() {
                    eprintln!("[c08-debug] {step}: shielding InsufficientFunds required {required} but conservative coins {} (basis {})", tv.conservative, tv.basis);
                }
            }
        }
        Err(PErr::ScanRequired) => st.err_scan_required += 1,
        Err(PErr::Ineligible) => st.err_ineligible += 1,
        Err(PErr::InputsLocked(r)) => {
            st.err_inputs_locked += 1;
            let req_owner = spec.lock.map(|(o, _)| o % N_OWNERS);
            let entry = output_ref_coin(&r).and_then(|k| m.tlocks.get(&k).copied());
            let ok = match (req_owner, entry) {
                (Some(ro), Some((lo, exp))) => lo != ro && exp >= target,
                _ => false,
            };
            vensure!(
                ok,
                "inputs-locked-without-foreign-lock",
                "{step}: InputsLocked({r:?}) but the model has lock entry {entry:?} for it (requesting owner {req_owner:?}, target {target})"
            );
        }
        Err(PErr::Other(variant, dbg)) => {
            st.err_other += 1;
            st.t_err_other += 1;
            if st.other_errors.len() < 8 {
                st.other_errors.insert(format!("{variant} {}", dbg.chars().take(80).collect::<String>()));
            }
            if std::env::var("VERIF_C08_DEBUG").is_ok() {
                eprintln!("[c08-debug] shielding: other error: {} :: kind {:?}", dbg.chars().take(400).collect::<String>(), spec.kind);
            }
        }
    }
    compare_lock_tables(h, m, st, step)?;
    Ok(())
}

// ---------------------------------------------------------------------------------------------
// Case interpreter
// ---------------------------------------------------------------------------------------------

fn excluded(h: &Hist) -> CaseResult {
    let label = if h.tainted_stale_subtree_root && !h.tainted_stale_annotation { "excluded-known:stale-subtree-root-after-reorg" } else { "excluded-known:stale-annotation-after-reorg" };
    Ok(Obs::trivial().label(label).label_if(h.flags.truncations > 0, "rewind"))
}

/// `Ok(true)` = continue, `Ok(false)` = the history hit the known shardtree finding and must stop.
fn guard(h: &Hist, r: Result<(), Fail>) -> Result<bool, Fail> {
    match r {
        Err(f) if f.signature == SIG_TREE_CONFLICT || f.signature == SIG_STALE_SUBTREE_ROOT => Ok(false),
        Err(f) => Err(f),
        Ok(()) => Ok(h.tainted().is_none()),
    }
}

fn sync(h: &mut Hist, full: Option<u16>, new_from: u32, step: &str) -> Result<(), Fail> {
    h.ensure_tip_known(step)?;
    let tip = h.chain.tip_height();
    match full {
        Some(chunk) => h.scan_all(chunk),
        None if new_from <= tip => h.scan(new_from, tip + 1 - new_from, step),
        None => Ok(()),
    }
}

/// Applies a history op; if it rewound the wallet, the coin model follows the documented effect of
/// `truncate_to_height`: "the block at the returned height will be the most recent block" - every transaction the
/// wallet believed mined above that height is un-mined.
fn apply_rewinding(h: &mut Hist, m: &mut Model, st: &mut Stats, op: &Op, step: &str) -> Result<(), Fail> {
    let before = h.flags.truncations;
    let r = h.apply(op, step);
    if h.flags.truncations > before {
        let got = h.w.chain_height().unwrap_or(h.base());
        let n = m.on_rewind(got);
        if n > 0 {
            st.coin_reorgs += 1;
        }
    }
    r
}

fn run_case(ctx: &Ctx, case: &C08Case) -> CaseResult {
    let mut h = Hist::new(&case.base.world, false);
    for (i, op) in case.base.ops.iter().enumerate() {
        let step = step_name(i, op);
        let r = h.apply(op, &step);
        if !guard(&h, r)? {
            return excluded(&h);
        }
    }
    if !case.seed_blocks.is_empty() {
        h.apply(&Op::AddBlocks(case.seed_blocks.clone()), "seed-blocks")?;
    }
    if case.seed_advance > 0 {
        h.apply(&Op::AddEmpty(case.seed_advance as u16), "seed-advance")?;
    }
    if h.chain.tip_height() == h.base() {
        return Ok(Obs::trivial().label("empty-chain"));
    }
    let r = sync(&mut h, case.full_scan, u32::MAX, "pre-sync");
    if !guard(&h, r)? {
        return excluded(&h);
    }
    let mut m = Model::new(&h.world);
    let mut st = Stats::default();
    for (i, r) in case.seed_coins.iter().enumerate() {
        h.ensure_tip_known("seed-coins")?;
        do_coin_recv(&mut h, &mut m, &mut st, r, &format!("seed-coin#{i} {r:?}"))?;
    }
    for (i, x) in case.xops.iter().enumerate() {
        let step = {
            let s = format!("xop#{i} {x:?}");
            if s.len() > 300 {
                format!("{}…", s.chars().take(300).collect::<String>())
            } else {
                s
            }
        };
        m.sync_exec(&h);
        match x {
            XOp::MineExecuted { sel, k } => {
                let cands: Vec<usize> = (0..m.exec.len()).filter(|i| m.exec[*i].mined_block.is_none()).collect();
                if cands.is_empty() {
                    continue;
                }
                if h.chain.tip_height() > h.base() {
                    h.ensure_tip_known(&step)?;
                }
                let ei = cands[vcore::pick_index(*sel, cands.len())];
                let r = do_mine_executed(&mut h, &mut m, &mut st, ei, *k, case.full_scan, &step).map(|_| ());
                if !guard(&h, r)? {
                    return excluded(&h);
                }
                compare_lock_tables(&mut h, &m, &mut st, &step)?;
            }
            XOp::Cycle { recvs, first, k, wait, then } => {
                if h.chain.tip_height() == h.base() {
                    continue;
                }
                h.ensure_tip_known(&step)?;
                st.cycles += 1;
                for r in recvs {
                    do_coin_recv(&mut h, &mut m, &mut st, r, &step)?;
                }
                let before = m.stored.len();
                match first {
                    CycleFirst::Shield(spec) => do_shield(ctx, &mut h, &mut m, &mut st, spec, &step)?,
                    CycleFirst::Transfer(spec) => do_propose(ctx, &mut h, &mut m, &mut st, spec, &step)?,
                }
                let mut cycle_account = None;
                if m.stored.len() > before && executable(&m.stored[before]) {
                    let n_exec = m.exec.len();
                    do_execute(&mut h, &mut m, &mut st, before, &step)?;
                    if m.exec.len() > n_exec {
                        cycle_account = Some(m.stored[before].account);
                        let r = do_mine_executed(&mut h, &mut m, &mut st, n_exec, *k, case.full_scan, &step);
                        st.cycles_mined += matches!(r, Ok(true)) as u64;
                        if !guard(&h, r.map(|_| ()))? {
                            return excluded(&h);
                        }
                    }
                }
                if *wait > 0 {
                    let from = h.chain.tip_height() + 1;
                    let r = h.apply(&Op::AddEmpty(*wait as u16), &step).and_then(|_| sync(&mut h, case.full_scan, from, &step));
                    if !guard(&h, r)? {
                        return excluded(&h);
                    }
                }
                h.ensure_tip_known(&step)?;
                m.prefer_account = cycle_account;
                let r = do_propose(ctx, &mut h, &mut m, &mut st, then, &step);
                m.prefer_account = None;
                r?;
            }
            XOp::T(top) => {
                if h.chain.tip_height() > h.base() {
                    h.ensure_tip_known(&step)?;
                }
                match top {
                    TOp::Recv(r) => do_coin_recv(&mut h, &mut m, &mut st, r, &step)?,
                    TOp::Spend(sp) => do_coin_spend(&mut h, &mut m, &mut st, sp, &step)?,
                    TOp::Remine { sel, depth } => do_coin_remine(&mut h, &mut m, &mut st, *sel, *depth, &step)?,
                    TOp::Shield(spec) => do_shield(ctx, &mut h, &mut m, &mut st, spec, &step)?,
                    TOp::AdvanceFar { n } => {
                        let from = h.chain.tip_height() + 1;
                        let r = h.apply(&Op::AddEmpty(*n as u16), &step).and_then(|_| sync(&mut h, case.full_scan, from, &step));
                        if !guard(&h, r)? {
                            return excluded(&h);
                        }
                    }
                    TOp::CoinbaseMatured { account, slot, value, n, shield } => {
                        let recv = CoinRecv { how: RecvHow::Coinbase, account: *account, outs: vec![(0, Some(*slot), *value)], depth: 0 };
                        do_coin_recv(&mut h, &mut m, &mut st, &recv, &step)?;
                        let from = h.chain.tip_height() + 1;
                        let r = h.apply(&Op::AddEmpty(*n as u16), &step).and_then(|_| sync(&mut h, case.full_scan, from, &step));
                        if !guard(&h, r)? {
                            return excluded(&h);
                        }
                        h.ensure_tip_known(&step)?;
                        do_shield(ctx, &mut h, &mut m, &mut st, shield, &step)?;
                    }
                    TOp::RecvThenReorg { recv, extra, n } => {
                        let from = h.chain.tip_height() + 1;
                        let r = h.apply(&Op::AddEmpty(1), &step).and_then(|_| sync(&mut h, case.full_scan, from, &step));
                        if !guard(&h, r)? {
                            return excluded(&h);
                        }
                        // mined in the block just added
                        let mut recv = recv.clone();
                        recv.depth = 0;
                        do_coin_recv(&mut h, &mut m, &mut st, &recv, &step)?;
                        let r = apply_rewinding(&mut h, &mut m, &mut st, &Op::Truncate { depth: 1 + *extra, reorg: true }, &step);
                        if !guard(&h, r)? {
                            return excluded(&h);
                        }
                        let from = h.chain.tip_height() + 1;
                        let r = h.apply(&Op::AddEmpty(*n as u16), &step).and_then(|_| sync(&mut h, case.full_scan, from, &step));
                        if !guard(&h, r)? {
                            return excluded(&h);
                        }
                        st.coin_reorgs += 1;
                    }
                }
                m.refresh(&h.chain);
                compare_lock_tables(&mut h, &m, &mut st, &step)?;
            }
            XOp::Advance { n } => {
                let from = h.chain.tip_height() + 1;
                let r = h.apply(&Op::AddEmpty(*n as u16), &step).and_then(|_| sync(&mut h, case.full_scan, from, &step));
                if !guard(&h, r)? {
                    return excluded(&h);
                }
            }
            XOp::Receive(b) => {
                let from = h.chain.tip_height() + 1;
                let r = h.apply(&Op::AddBlocks(vec![b.clone()]), &step).and_then(|_| sync(&mut h, case.full_scan, from, &step));
                if !guard(&h, r)? {
                    return excluded(&h);
                }
            }
            XOp::SpendThenReorg { sel, pool_hint, extra, n } => {
                let from = h.chain.tip_height() + 1;
                let block = BlockSpec { txs: vec![TxSpec { items: vec![ItemSpec::Spend { sel: *sel, pool_hint: *pool_hint }] }] };
                let r = h.apply(&Op::AddBlocks(vec![block]), &step).and_then(|_| sync(&mut h, case.full_scan, from, &step));
                if !guard(&h, r)? {
                    return excluded(&h);
                }
                let r = apply_rewinding(&mut h, &mut m, &mut st, &Op::Truncate { depth: 1 + *extra, reorg: true }, &step);
                if !guard(&h, r)? {
                    return excluded(&h);
                }
                let from = h.chain.tip_height() + 1;
                let r = h.apply(&Op::AddEmpty(*n as u16), &step).and_then(|_| sync(&mut h, case.full_scan, from, &step));
                if !guard(&h, r)? {
                    return excluded(&h);
                }
                m.refresh(&h.chain);
                compare_lock_tables(&mut h, &m, &mut st, &step)?;
            }
            XOp::Base(op) => {
                let r = apply_rewinding(&mut h, &mut m, &mut st, op, &step);
                if !guard(&h, r)? {
                    return excluded(&h);
                }
                if h.chain.tip_height() > h.base() {
                    h.ensure_tip_known(&step)?;
                }
                m.refresh(&h.chain);
                compare_lock_tables(&mut h, &m, &mut st, &step)?;
            }
            XOp::Propose(spec) => {
                if h.chain.tip_height() > h.base() {
                    h.ensure_tip_known(&step)?;
                }
                do_propose(ctx, &mut h, &mut m, &mut st, spec, &step)?;
            }
            XOp::Unlock { sel, owner } => {
                if m.stored.is_empty() {
                    continue;
                }
                let k = vcore::pick_index(*sel, m.stored.len());
                let o = *owner % N_OWNERS;
                let token = owner_token(o);
                st.unlocks += 1;
                match &m.stored[k].proposal {
                    AnyProp::Transfer(p) => unlock_proposal_inputs(h.w.db(), p, token),
                    AnyProp::Shield(p) => unlock_proposal_inputs(h.w.db(), p, token),
                }
                .map_err(|e| Fail::new("unlock-error", format!("{step}: unlock_proposal_inputs failed: {e:?}")))?;
                let keys = m.stored[k].keys.clone();
                for key in keys {
                    if m.locks.get(&key).map_or(false, |(lo, _)| *lo == o) {
                        m.locks.remove(&key);
                        st.unlock_removed += 1;
                    }
                }
                for key in m.stored[k].coins.clone() {
                    if m.tlocks.get(&key).map_or(false, |(lo, _)| *lo == o) {
                        m.tlocks.remove(&key);
                        st.unlock_removed += 1;
                    }
                }
                m.refresh(&h.chain);
                compare_lock_tables(&mut h, &m, &mut st, &step)?;
            }
            XOp::Execute { sel } => {
                if m.stored.is_empty() {
                    continue;
                }
                // among the proposals that can be built with the mock Sapling provers, if any
                let eligible: Vec<usize> = (0..m.stored.len()).filter(|k| executable(&m.stored[*k])).collect();
                st.executes += 1;
                if eligible.is_empty() {
                    st.execute_ineligible += 1;
                    continue;
                }
                let k = eligible[vcore::pick_index(*sel, eligible.len())];
                do_execute(&mut h, &mut m, &mut st, k, &step)?;
            }
            XOp::ClearLocks { account } => {
                let a = (*account).min(h.world.accounts.len() as u8 - 1);
                let id = h.w.accounts[a as usize];
                st.clears += 1;
                h.w.db().clear_locked_outputs(id).map_err(|e| Fail::new("clear-locks-error", format!("{step}: clear_locked_outputs failed: {e:?}")))?;
                m.refresh(&h.chain);
                let index = &m.index;
                let chain = &h.chain;
                m.locks.retain(|k, _| index.get(k).map_or(true, |n| chain.notes[*n].who != Who::Wallet(a)));
                let (coin_index, coins) = (&m.coin_index, &m.coins);
                m.tlocks.retain(|k, _| coin_index.get(k).map_or(true, |c| coins[*c].account != a));
                compare_lock_tables(&mut h, &m, &mut st, &step)?;
            }
        }
    }
    let nontrivial = st.nontrivial_attempts > 0 || st.t_nontrivial > 0;
    if std::env::var("VERIF_C08_DEBUG").is_ok() && (!st.coin_recv_errors.is_empty() || !st.execute_errors.is_empty()) {
        eprintln!("[c08-debug] rejected coin ops {:?}; execute errors {:?}", st.coin_recv_errors, st.execute_errors);
    }
    Ok(Obs::new(nontrivial)
        .label_if(st.attempts > 0, "proposal-attempted")
        .label_if(st.ok > 0, "proposal-ok")
        .label_if(st.ok_locked > 0, "proposal-ok-with-lock")
        .label_if(st.multi_step > 0, "multi-step-proposal")
        .label_if(st.canonical_anchor > 0, "bucketed-policy-proposal(zip318-canonical-crossing)")
        .label_if(st.anchor_deeper > 0, "anchor-below-target-minus-trusted")
        .label_if(st.locked_exclusion > 0, "locked-note-exclusion-situation")
        .label_if(st.under_confirmed > 0, "under-confirmed-note")
        .label_if(st.spent_candidate > 0, "spent-note-present")
        .label_if(st.orphan_candidate > 0, "orphaned-note-present")
        .label_if(st.pending_spent_candidate > 0, "note-spent-by-unexpired-orphan-tx")
        .label_if(st.wallet_pending_candidate > 0, "note-spent-by-stored-pending-tx")
        .label_if(st.executed_ok > 0, "pending-tx-stored")
        .label_if(st.selected_after_pending_expiry > 0, "selected-note-whose-pending-spender-expired")
        .label_if(st.execute_err > 0, "execute-failed")
        .label_if(st.gaps_at_attempt > 0, "attempt-with-unscanned-gaps")
        .label_if(st.max_reasons >= 2, "attempt-with>=2-distinct-ineligibility-reasons")
        .label_if(st.max_reasons >= 3, "attempt-with>=3-distinct-ineligibility-reasons")
        .label_if(st.override_selected_locked > 0, "override-policy-selected-locked-note")
        .label_if(st.err_insufficient > 0, "err-insufficient-funds")
        .label_if(st.err_inputs_locked > 0, "err-inputs-locked")
        .label_if(st.err_ineligible > 0, "err-everything-mode-ineligible")
        .label_if(st.err_scan_required > 0, "err-scan-required")
        .label_if(st.err_other > 0, "err-other")
        .label_if(st.other_errors.iter().any(|e| e.contains("PaymentPoolsMismatch")), "err-payment-pools-mismatch(tex-payment-after-non-tex)")
        .label_if(st.insufficient_despite_documented > 0, "LIVENESS-insufficient-although-documented-spendable-covers")
        .label_if(st.self_contradictions > 0, "observation:insufficient-funds-contradicts-own-available")
        .label_if(st.have_ge_need > 0, "observation:insufficient-funds-reports-available-at-least-required")
        .label_if(st.crossing_attempts > 0, "canonical-crossing-attempted")
        .label_if(st.strict_conf_latitude > 0, "selected-external-note-of-wallet-spending-tx-with-trusted-confs")
        .label_if(st.selected_dust > 0, "selected-dust-note")
        .label_if(st.everything_partial > 0, "send-max-everything-partial")
        .label_if(case.full_scan.is_some(), "synced-wallet")
        .label_if(case.base.world.nu6_3_offset.is_some(), "ironwood-world")
        .label_if(h.flags.truncations > 0, "rewind")
        // --- transparent: generator/model side ---
        .label_if(!m.coins.is_empty(), "wallet-holds-transparent-coin")
        .label_if(st.t_attempts > 0, "transparent-proposal-attempted")
        .label_if(st.t_attempts_with_coin > 0, "has-transparent-coin")
        .label_if(st.shield_attempts > 0, "propose-shielding")
        .label_if(st.shield_coinbase_attempts > 0, "propose-shielding-coinbase")
        .label_if(st.transfer_t_attempts > 0, "propose-transfer-with-transparent-source")
        .label_if(st.coin_underconfirmed > 0, "coin-underconfirmed")
        .label_if(st.coin_locked_other > 0, "coin-locked-by-other-owner")
        .label_if(st.coin_locked_admitted > 0, "coin-locked-by-admitted-owner")
        .label_if(st.coin_spent_pending > 0, "coin-spent-by-pending-tx")
        .label_if(st.coin_spent_mined > 0, "coin-spent-by-mined-tx")
        .label_if(st.coin_unmined > 0, "coin-unmined")
        .label_if(st.coin_unmined_zero_conf_ok > 0, "coin-unmined-but-zero-conf-spendable")
        .label_if(st.coin_orphaned_by_rewind > 0, "coin-unmined-by-rewind")
        .label_if(st.coin_other_account_requested > 0, "coin-of-other-account-at-requested-address")
        .label_if(st.coin_unrequested_address_present > 0, "spendable-coin-outside-requested-scope")
        .label_if(st.coin_immature_coinbase > 0, "coinbase-coin-immature")
        .label_if(st.coin_mature_coinbase > 0, "coinbase-coin-mature")
        .label_if(st.coin_dust > 0, "coin-dust")
        .label_if(st.coin_pending_expired > 0, "coin-whose-pending-spender-expired")
        .label_if(st.t_nontrivial > 0, "transparent-nontrivial-attempt")
        .label_if(st.coin_spends_stored > 0, "coin-spender-stored-by-wallet")
        .label_if(st.coin_remines > 0, "coin-re-mined")
        // --- transparent: outcomes ---
        .label_if(st.t_ok > 0, "transparent-proposal-ok")
        .label_if(st.shield_ok > 0, "propose-shielding-ok")
        .label_if(st.shield_coinbase_ok > 0, "propose-shielding-coinbase-ok")
        .label_if(st.t_ok_locked > 0, "transparent-proposal-ok-with-lock")
        .label_if(st.mixed_inputs_proposals > 0, "proposal-with-notes-and-coins")
        .label_if(st.selected_zero_conf_unmined > 0, "selected-unmined-coin-under-zero-conf")
        .label_if(st.selected_coin_after_spender_expiry > 0, "selected-coin-whose-pending-spender-expired")
        .label_if(st.selected_locked_coin_by_override > 0, "override-policy-selected-locked-coin")
        .label_if(st.selected_mature_coinbase > 0, "selected-mature-coinbase-coin")
        .label_if(st.t_executed > 0, "pending-tx-spending-coins-stored")
        .label_if(st.coin_recv_rejected > 0, "coin-op-rejected-by-wallet")
        .label_if(st.known_orphaned_coinbase > 0, "known:selected-orphaned-coinbase-coin")
        .label_if(st.obs_other_account_coin_selected > 0, "observation:shielding-selected-requested-coin-of-other-account")
        .label_if(st.obs_shield_insufficient_despite_spendable > 0, "observation:shielding-insufficient-despite-spendable-coins")
        // --- mined wallet-created transactions: generator/model side ---
        .label_if(st.exec_mined > 0, "executed-tx-mined")
        .label_if(st.exec_mined_shielding > 0, "executed-shielding-tx-mined")
        .label_if(st.exec_mined_transfer > 0, "executed-sapling-transfer-mined")
        .label_if(st.shield_note_mined > 0, "shielding-output-note-mined")
        .label_if(st.change_note_mined > 0, "change-note-of-wallet-transfer-mined")
        .label_if(st.shield_inputs_diff_heights > 0, "shielding-inputs-at-different-heights")
        .label_if(st.shield_single_coin_mined > 0, "shielding-tx-with-one-coin-mined")
        .label_if(st.shield_zero_conf_input > 0, "shielding-input-received-0-2-blocks-before-shielding")
        .label_if(st.coins_remined_for_mining > 0, "unmined-coin-mined-just-before-its-shielding-tx")
        .label_if(st.shield_note_in_window > 0, "shielding-output-inside-confirmation-window-at-proposal")
        .label_if(st.shield_note_in_window_needed > 0, "request-needs-shielding-output-inside-window")
        .label_if(st.shield_note_spendable > 0, "shielding-output-past-confirmation-window-at-proposal")
        .label_if(st.window_amounts > 0, "request-reaching-into-confirmation-window")
        .label_if(st.mine_refused_by_chain > 0, "executed-tx-not-minable-on-branch")
        // --- mined wallet-created transactions: outcomes ---
        .label_if(st.selected_shield_note > 0, "selected-shielding-output-note")
        .label_if(st.selected_mined_change_note > 0, "selected-mined-change-note-of-wallet-transfer")
        .label_if(st.selected_shield_note_weaker_reading > 0, "selected-shielding-output-under-weaker-reading-only")
        .count("executed-txs-mined", st.exec_mined)
        .count("executed-shielding-txs-mined", st.exec_mined_shielding)
        .count("mine-attempts", st.mine_attempts)
        .count("mine-skipped", st.mine_skipped)
        .count("mine-skipped:tx-without-wallet-detectable-shielded-part", st.mine_skipped_undetectable)
        .count("mine-refused-by-chain", st.mine_refused_by_chain)
        .count("cycles", st.cycles)
        .count("cycles-mined", st.cycles_mined)
        .count("attempts-with-shielding-output-in-window", st.shield_note_in_window)
        .count("attempts-needing-shielding-output-in-window", st.shield_note_in_window_needed)
        .count("selected-shielding-output-notes", st.selected_shield_note)
        .count("selected-mined-change-notes", st.selected_mined_change_note)
        .count("selected-shielding-output-under-weaker-reading-only", st.selected_shield_note_weaker_reading)
        .count("coins-received", st.coins_received)
        .count("coin-spends", st.coin_spends)
        .count("coin-reorgs", st.coin_reorgs)
        .count("transparent-attempts", st.t_attempts)
        .count("transparent-attempts-with-coin", st.t_attempts_with_coin)
        .count("transparent-nontrivial-attempts", st.t_nontrivial)
        .count("propose-shielding-calls", st.shield_attempts)
        .count("propose-shielding-coinbase-calls", st.shield_coinbase_attempts)
        .count("propose-transfer-with-transparent-source-calls", st.transfer_t_attempts)
        .count("transparent-proposals-ok", st.t_ok)
        .count("propose-shielding-ok", st.shield_ok)
        .count("propose-shielding-coinbase-ok", st.shield_coinbase_ok)
        .count("transparent-proposals-ok-with-lock", st.t_ok_locked)
        .count("selected-coins-checked", st.selected_coins)
        .count("transparent-err-insufficient", st.t_err_insufficient)
        .count("transparent-err-other", st.t_err_other)
        .count("pending-txs-spending-coins", st.t_executed)
        .count("coin-ops-rejected", st.coin_recv_rejected)
        .count("selected-internal-coin-at-trusted-depth", st.selected_internal_coin_trusted_depth)
        .count("proposal-attempts", st.attempts)
        .count("proposals-ok", st.ok)
        .count("proposals-ok-with-lock", st.ok_locked)
        .count("selected-notes-checked", st.selected_notes)
        .count("witnesses-verified", st.witnesses_checked)
        .count("multi-step-proposals", st.multi_step)
        .count("nontrivial-attempts", st.nontrivial_attempts)
        .count("attempts-with-locked-exclusion", st.locked_exclusion)
        .count("attempts-with-under-confirmed", st.under_confirmed)
        .count("err-insufficient-funds", st.err_insufficient)
        .count("err-inputs-locked", st.err_inputs_locked)
        .count("err-ineligible", st.err_ineligible)
        .count("err-scan-required", st.err_scan_required)
        .count("err-other", st.err_other)
        .count("requests-invalid", st.request_invalid)
        .count("locks-taken", st.locks_taken)
        .count("unlock-calls", st.unlocks)
        .count("unlock-removed-locks", st.unlock_removed)
        .count("clear-calls", st.clears)
        .count("lock-tables-compared", st.lock_tables_compared)
        .count("override-selected-locked", st.override_selected_locked)
        .count("execute-attempts", st.executes)
        .count("execute-ineligible", st.execute_ineligible)
        .count("pending-txs-stored", st.executed_ok)
        .count("execute-errors", st.execute_err)
        .count("attempts-with-pending-spent-note", st.wallet_pending_candidate)
        .count("insufficient:wallet-has-unscanned-gaps", st.insuf_gaps)
        .count("insufficient:model-sees-nothing-selectable", st.insuf_nothing_selectable)
        .count("insufficient:send-max", st.insuf_sendmax)
        .count("insufficient:amount-within-fees-of-or-above-model-total", st.insuf_amount_near_total)
        .count("insufficient:not-explained-by-model", st.insuf_unexplained)
        .count("observation:insufficient-funds-despite-spendable", st.insuf_despite_spendable)
        .count("insufficient-funds-probes", st.probes)
        .count("self-contradictions", st.self_contradictions)
        .count("insufficient-with-available-at-least-required", st.have_ge_need)
        .count("canonical-crossing-attempts", st.crossing_attempts)
        .count("bucketed-policy-proposals", st.canonical_anchor))
}

/// Recorded minimal input of the observation `insufficient-funds-contradicts-own-available`: one account; an
/// EXTERNAL 1_000_000 note mined at height h, an INTERNAL (change-like) 2_000_000 note at h+1, three more blocks, all
/// scanned; DEFAULT confirmations policy (trusted 3 / untrusted 10); pay 50_000 to a Sapling address.
fn known_contradiction_case() -> C08Case {
    let recv = |scope: ScopeSel, v: u64| BlockSpec { txs: vec![TxSpec { items: vec![ItemSpec::Recv { pool: Pool::Sapling, who: Who::Wallet(0), scope, value: v }] }] };
    C08Case {
        base: Case {
            world: WorldSpec { seed: [9; 32], n_accounts: 1, n_foreign: 0, nu6_3_offset: None, retention_interval: None, base: None },
            long: false,
            ops: vec![Op::AddBlocks(vec![recv(ScopeSel::External, 1_000_000), recv(ScopeSel::Internal, 2_000_000)]), Op::AddEmpty(3)],
            final_chunk: 10,
        },
        seed_blocks: vec![],
        seed_advance: 0,
        full_scan: Some(10),
        seed_coins: vec![],
        xops: vec![XOp::Propose(ProposeSpec {
            kind: Kind::Transfer { pays: vec![Pay { addr: AddrKind::Sapling, rk: 0, amount: Amount::Tiny(50_000) }], change: ChangeSel::Single, fallback_orchard: false },
            account: 0,
            trusted: 3,
            untrusted_extra: 7,
            lock_pol: LockPol::Exclude,
            pools_mask: 7,
            lock: None,
            tsrc: None,
        })],
    }
}

/// Recorded minimal input of the observation `insufficient-funds-reports-available-at-least-required`: one account
/// holding an Orchard note of 1_000_000 and a Sapling note of 30_000 (both deep enough); pay 990_000 to a P2PKH address.
/// The Orchard note alone covers payment + the fee estimated without inputs (1_000_000) but not the fee with it
/// (1_005_000); both pools together (1_030_000) cover payment + fee (1_015_000).
fn known_have_ge_need_case() -> C08Case {
    let recv = |pool: Pool, v: u64| BlockSpec { txs: vec![TxSpec { items: vec![ItemSpec::Recv { pool, who: Who::Wallet(0), scope: ScopeSel::External, value: v }] }] };
    C08Case {
        base: Case {
            world: WorldSpec { seed: [11; 32], n_accounts: 1, n_foreign: 0, nu6_3_offset: None, retention_interval: None, base: None },
            long: false,
            ops: vec![Op::AddBlocks(vec![recv(Pool::Orchard, 1_000_000), recv(Pool::Sapling, 30_000)]), Op::AddEmpty(5)],
            final_chunk: 10,
        },
        seed_blocks: vec![],
        seed_advance: 0,
        full_scan: Some(10),
        seed_coins: vec![],
        xops: vec![XOp::Propose(ProposeSpec {
            kind: Kind::Transfer { pays: vec![Pay { addr: AddrKind::P2pkh, rk: 0, amount: Amount::Tiny(990_000) }], change: ChangeSel::Single, fallback_orchard: false },
            account: 0,
            trusted: 1,
            untrusted_extra: 0,
            lock_pol: LockPol::Exclude,
            pools_mask: 7,
            lock: None,
            tsrc: None,
        })],
    }
}

/// Regression input of the repaired finding `selected-orphaned-coinbase-coin`: one account; a coinbase transaction
/// paying 6.25 ZEC to the account's default transparent receiver is mined in the tip block and handed to the wallet
/// (`decrypt_and_store_transaction`, as the repository's coinbase tests do); a reorganisation removes that block
/// (`truncate_to_height(tip - 1)`), two blocks of the new branch are scanned; `propose_shielding` from that address under
/// the DEFAULT confirmations policy (3 / 10, zero-conf shielding allowed) with threshold 10000. Before the repair the wallet
/// returned a proposal spending the orphaned 625000000-zatoshi coinbase output; the coin oracle (`check_coins`) rejects any
/// proposal that selects it, so the case passes exactly when the wallet answers with an error.
fn orphaned_coinbase_case() -> C08Case {
    let recv = |v: u64| BlockSpec { txs: vec![TxSpec { items: vec![ItemSpec::Recv { pool: Pool::Sapling, who: Who::Wallet(0), scope: ScopeSel::External, value: v }] }] };
    C08Case {
        base: Case {
            world: WorldSpec { seed: [13; 32], n_accounts: 1, n_foreign: 0, nu6_3_offset: None, retention_interval: None, base: None },
            long: false,
            ops: vec![Op::AddBlocks(vec![recv(1_000_000)]), Op::AddEmpty(4)],
            final_chunk: 10,
        },
        seed_blocks: vec![],
        seed_advance: 0,
        full_scan: Some(10),
        seed_coins: vec![],
        xops: vec![
            XOp::T(TOp::RecvThenReorg { recv: CoinRecv { how: RecvHow::Coinbase, account: 0, outs: vec![(0, Some(Slot::Default), 625_000_000)], depth: 0 }, extra: 0, n: 2 }),
            XOp::T(TOp::Shield(ShieldSpec {
                kind: ShieldKind::Shield { filter: 0, fallback_orchard: false, multi: false },
                account: 0,
                all_funded: true,
                skip_ephemeral: true,
                from: vec![],
                threshold: Amount::Tiny(10_000),
                trusted: 3,
                untrusted_extra: 7,
                zero_conf: true,
                lock_pol: LockPol::Exclude,
                lock: None,
            })),
        ],
    }
}

fn main() {
    chainsim::init_sqlite();
    let ctx = Ctx::from_args("C08", "exploration");
    ctx.set_rule(
        "proptest cases: a chainsim wallet history (world with 1-3 accounts, optional Ironwood activation and retention interval; blocks with \
         receipts/spends in 3 pools and all key scopes, scans in any order, tip updates, rewinds with/without reorg) + 0-3 busy blocks + 0-15 \
         empty blocks, then (85 %) a full scan or (15 %) the gaps are left; then 6-16 C08 ops: Propose (propose_transfer with single/multi-output \
         change strategy and 1-3 payments to Sapling / unified (full, Orchard-only, Sapling-only, Sapling+P2PKH) / P2PKH / P2SH / TEX / own-account \
         addresses; propose_standard_transfer_to_address; propose_send_max_transfer in both MaxSpendMode values; a canonical ZIP 318 denomination to an \
         Orchard receiver; a Sapling-pool-only transfer; amounts tiny / a percentage / total-k for fee-sized k / total+k / far above, relative to the value the model considers \
         selectable; ConfirmationsPolicy trusted 1-10, untrusted = trusted+0..10; SpendPolicy pools subset; LockedInputPolicy Exclude / \
         PreferUnlocked(owners) / PreferLocked(owners) over 3 owners; lock_inputs Some(owner, 0-39 blocks) in 60 %; the account is picked by rank \
         of selectable value), Advance(1-12 or 30-45 empty blocks, scanned), Receive(a generated block, scanned), rewind / gap scan, SpendThenReorg (a block spending a wallet note is scanned and then reorganised away), unlock_proposal_inputs \
         of an earlier proposal under any owner, clear_locked_outputs, Execute (create_proposed_transactions with the mock Sapling provers for an earlier \
         single-step Sapling-only proposal: the transaction is STORED via store_transactions_to_be_sent and never mined, so its inputs are spent by a pending \
         transaction until its expiry height), MineExecuted (an executed, never-mined transaction is mined k = 0-11 blocks above the tip in a block of its own, converted to a CompactTx like a \
         light-client server would, and scanned: its inputs are now spent by a mined transaction, its change notes are mined wallet notes at the TRUSTED depth), Cycle (a Sapling-only transfer with change -> Execute -> MineExecuted(k) -> \
         0-29 blocks -> a proposal from the same account whose amount reaches INTO the confirmation window: model-selectable total + 5-90 % of the value of anchored but under-confirmed notes). Every returned proposal is checked note by note against the model ledger and \
         the model lock table; the wallet's get_locked_outputs is compared with the model lock table after every op. Non-trivial = history with a \
         proposal attempt against an account holding >= 2 unspent mined notes while >= 1 note of the account is ineligible (spent, spent by an \
         unexpired orphaned tx, spent by a stored pending tx, orphaned, under-confirmed, locked by a non-admitted owner) or the wallet has unscanned gaps; distinct = hash of the case. \
         Sub-check `transparent`: the same kind of history (shorter), 1-5 transparent receipts, then 8-20 ops, mostly about coins: Recv (put_received_transparent_utxo with a mined \
         height of the current branch or with unknown height, as sync::refresh_utxos does; decrypt_and_store_transaction of a full transparent transaction, mined or in the mempool with \
         expiry 0 / target+k / stale; a mined coinbase transaction; 1-2 outputs of value 0 / dust below, at and above the marginal fee / ordinary / huge, paying the default transparent \
         receiver, external index 1 or 2, the internal (change) address, an ephemeral address, of this or the next account, or nobody's address; mined 0-59 blocks below the tip), Spend \
         (a transaction spending 1-2 coins is stored as mined, as seen in the mempool, or through store_transactions_to_be_sent with utxos_spent; optional output back to the wallet), \
         Remine (an un-mined coin is announced as mined on the current branch), RecvThenReorg (a coin mined in a new block that a reorganisation then removes), AdvanceFar (92-110 blocks: \
         coinbase maturity), Shield (propose_shielding with CoinbaseFilter all / coinbase-only / non-coinbase-only, single or multi-output change strategy, threshold 0 / tiny / a percentage / \
         total-k / total+k / far above the model-selectable value, from-addresses = every funded address of the account and/or up to 2 of: an own address, the next account's address, a \
         never-funded address, nobody's address; ConfirmationsPolicy trusted 1-10, untrusted = trusted+0..10, allow_zero_conf_shielding in 45 %; selector-level LockedInputPolicy; lock request \
         in 60 %; propose_shielding_coinbase to Sapling / unified / own / transparent (inadmissible) recipients with limit None / 0-3), propose_transfer kinds whose SpendPolicy carries a \
         TransparentSpendPolicy (any_account_addr or from_addresses, non-coinbase or only-coinbase) with 0-3 shielded pools permitted, plus the shielded ops above; Execute also builds \
         shielding / transparent-input proposals; MineExecuted mines them (un-mined funding coins are announced as mined in the tip block first); shielding Cycle: 1-3 coins of one account received at DIFFERENT \
         depths (one 3-29 blocks deep, one 0-2 blocks deep, i.e. shieldable only under zero-conf; or a single coin) -> propose_shielding of everything funded into Sapling (zero-conf in 85 %) -> Execute -> MineExecuted(k) -> 0-29 blocks -> \
         a value-targeted (or, rarely, send-max) proposal from the shielding account under trusted 1-5 / untrusted = trusted + 0..14 whose amount reaches into the confirmation window, so that the shielded note is needed while the \
         documented rule (newest transparent input + untrusted depth) still withholds it. Non-trivial there = a transparent proposal attempt naming >= 2 coins without mined spender of which >= 1 is ineligible (under-confirmed, un-mined, \
         locked by a non-admitted owner, spent by a pending or mined transaction, immature coinbase).",
    );
    ctx.assume("model ledger = chainsim::Ledger (validated against the wallet's balances and note rows by C01); un-mined tx with unknown expiry counts as unexpired while first-observed height + 40 >= target (documented tx_unexpired_condition)");
    ctx.assume("confirmations: a note needs mined_height + required <= target (= wallet chain tip + 1); required = trusted for internal-scope notes, untrusted otherwise (no transaction is ever marked trusted by the user). Latitude: an external-scope note of a transaction that also spends a wallet note is only required to have the trusted depth (counted separately)");
    ctx.assume("notes of wallet-funded transactions (ConfirmationsPolicy::confirmations_until_spendable rustdoc): an internal-scope output of a wallet-created transaction WITHOUT transparent inputs (change) needs mined_height + trusted <= target; an internal-scope output of a wallet shielding transaction takes its clock from the transparent inputs instead: max over the inputs' mined heights + untrusted <= target (no transaction is ever marked trusted). Asserted in the WEAKEST reading: only inputs of the note's own account whose mined height the wallet was told count (none known -> the change rule); the change of a propose_transfer that merely adds coins to shielded inputs is only required to be under the anchor. The strict reading (every wallet input, unknown height = unconfirmed, own transaction at the trusted depth too) is what the model considers selectable; a note selected under the weaker reading only is counted (selected-shielding-output-under-weaker-reading-only)");
    ctx.assume("a mined wallet-created transaction: Chain::add_block_with_tx refuses (nothing is mined) a transaction one of whose Sapling nullifiers belongs to a note that is spent or absent on the current branch; MineExecuted additionally requires the transaction unexpired at the mining height, its anchor block still on the branch, and every coin it spends mined (or announceable as mined) and not spent by another mined transaction; only a transaction with a part a compact-block scan detects (a shielded wallet input or a shielded output to the wallet) is mined - the scanner records no other transaction, and set_transaction_status is not modelled; it is mined at most once; while un-mined again (rewind) it spends its inputs until its stored expiry height");
    ctx.assume("locks: an output is locked while lock_expiry_height >= target height; lock_inputs sets expiry = target + for_blocks for every selected input; unlock is owner-scoped; clear is per account (data_api::locking module docs)");
    ctx.assume("pending: a transaction stored by store_transactions_to_be_sent spends its inputs while its expiry height >= target height (expiry 0 = never expires); storing it releases the locks on its inputs (propose_transfer docs); the expiry is read back from the wallet's transactions table");
    ctx.assume("liveness is NOT asserted; it is counted on overwhelming evidence (all blocks scanned, no dust candidates, notes with untrusted depth, never locked, no spender ever seen cover `required` + 100000 + 5000*(notes+8)); C08 states safety only; insufficient-funds answers that the model or the wallet's own other answers contradict are COUNTED as observation:* labels and never reported");
    ctx.assume("transparent coins: the coin model is the sequence of facts handed to the wallet (a coin exists once put_received_transparent_utxo / decrypt_and_store_transaction / store_transactions_to_be_sent accepted it; its transaction is mined at the last height the wallet was told, until a rewind goes below that height - truncate_to_height docs: 'the block at the returned height will be the most recent block'; a mined height of None never clears a recorded height - repository test put_received_transparent_utxo_preserves_mined_height); addresses are derived from the accounts' UFVKs, not read from the wallet");
    ctx.assume("transparent confirmations (ConfirmationsPolicy::confirmations_until_spendable): 0 when allow_zero_conf_shielding (then an un-mined output is admissible while its transaction is unexpired: expiry 0, expiry >= target, or unknown expiry and first observed + 40 >= target), otherwise mined_height + required <= target with required = untrusted, or trusted for an internal-scope (change) receiver (weakest documented reading; the wallet itself treats every transparent output as untrusted); a coinbase output additionally needs target - mined_height >= 100 and must be mined (documented maturity requirement; the wallet knows an output is coinbase only when it was given the full transaction)");
    ctx.assume("transparent spentness (get_spendable_transparent_outputs docs): an output is excluded while a transaction spending it is mined, or un-mined and not expired at the target height (expiry 0 or >= target); storing the spender through store_transactions_to_be_sent releases the locks of the outputs it spends, decrypt_and_store_transaction does not");
    ctx.assume("scope of a transparent request: propose_transfer - coins of the spending account (and of the named addresses under from_addresses), coinbase or non-coinbase as the TransparentSpendPolicy says; propose_shielding / propose_shielding_coinbase - coins received at the requested addresses (documented as address-scoped: a requested address of ANOTHER account of the wallet is honoured; counted as observation, not asserted), total input >= shielding_threshold (coinbase variant: input - fee >= threshold, at most `limit` inputs, one payment to the recipient, documented)");
    ctx.assume("a history stops (counted as excluded-known) as soon as a reorganising rewind cuts an annotated frontier subtree (known shardtree finding listed under C06)");
    let tier = ctx.tier;
    // Two recorded inputs on which input selection reports InsufficientFunds although the funds suffice (liveness
    // observations outside C08's statement, DESIGN.md 9.4). Every SAFETY oracle runs on them; the outcome (proposal or
    // the observation label) is recorded in the evidence, not asserted.
    ctx.run_enum(
        "observed-input-trusted-note-hides-change",
        1,
        false,
        |_| {
            let r = run_case(&ctx, &known_contradiction_case())?;
            Ok(r)
        },
        |_| format!("{:?}", known_contradiction_case()),
    );
    ctx.run_enum(
        "observed-input-single-pool-trim",
        1,
        false,
        |_| {
            let r = run_case(&ctx, &known_have_ge_need_case())?;
            Ok(r)
        },
        |_| format!("{:?}", known_have_ge_need_case()),
    );
    ctx.run_prop_with("proposals", || arb_c08_case(12, 6), tier.pick(1500, 24_000), 60, |c| run_case(&ctx, c));
    ctx.require_label_fraction("proposals", "proposal-ok", 0.40);
    ctx.require_label_fraction("proposals", "locked-note-exclusion-situation", 0.10);
    ctx.require_label_fraction("proposals", "under-confirmed-note", 0.20);
    ctx.require_label_fraction("proposals", "executed-tx-mined", 0.04);
    // Regression input of the repaired finding `selected-orphaned-coinbase-coin` (see known_findings.json): every oracle runs on it.
    ctx.run_enum(
        "recorded-input-orphaned-coinbase",
        1,
        false,
        |_| {
            let r = run_case(&ctx, &orphaned_coinbase_case())?;
            Ok(r)
        },
        |_| format!("{:?}", orphaned_coinbase_case()),
    );
    // Transparent coins: the same histories (shorter), then transparent receipts and operations that are mostly about coins.
    ctx.run_prop_with("transparent", || arb_c08_case_t(8, 3), tier.pick(1500, 24_000), 60, |c| run_case(&ctx, c));
    ctx.require_label_fraction("transparent", "has-transparent-coin", 0.45);
    ctx.require_label_fraction("transparent", "propose-shielding", 0.40);
    ctx.require_label_fraction("transparent", "propose-transfer-with-transparent-source", 0.35);
    ctx.require_label_fraction("transparent", "coin-underconfirmed", 0.15);
    ctx.require_label_fraction("transparent", "coin-unmined", 0.30);
    ctx.require_label_fraction("transparent", "coin-unmined-by-rewind", 0.12);
    ctx.require_label_fraction("transparent", "coin-spent-by-pending-tx", 0.12);
    ctx.require_label_fraction("transparent", "coin-locked-by-other-owner", 0.06);
    ctx.require_label_fraction("transparent", "coinbase-coin-immature", 0.15);
    ctx.require_label_fraction("transparent", "spendable-coin-outside-requested-scope", 0.25);
    ctx.require_label_fraction("transparent", "executed-tx-mined", 0.30);
    ctx.require_label_fraction("transparent", "shielding-output-note-mined", 0.30);
    ctx.require_label_fraction("transparent", "shielding-inputs-at-different-heights", 0.22);
    ctx.require_label_fraction("transparent", "shielding-output-inside-confirmation-window-at-proposal", 0.08);
    ctx.finish();
}

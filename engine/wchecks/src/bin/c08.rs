//! C08 — Proposals spend only spendable funds, each once, and balance exactly.
//!
//! A generated wallet history (chainsim `Case`: blocks with receipts/spends in three pools, scans in
//! any order, rewinds with/without reorg) is applied to a real SQLite wallet and to the model ledger;
//! then a generated sequence of C08 operations runs: chain advances (so notes gain confirmations and
//! locks expire), fresh receipts, rewinds, proposals of every kind (`propose_transfer` with single /
//! multi-output change strategies, `propose_standard_transfer_to_address`,
//! `propose_send_max_transfer`) under generated confirmation policies, spend policies, locked-input
//! policies and lock requests, `unlock_proposal_inputs`, `clear_locked_outputs`, and execution of earlier
//! Sapling-only proposals with the mock provers (`create_proposed_transactions` ->
//! `store_transactions_to_be_sent`), which leaves a pending, never-mined spender behind.
//!
//! Oracle (safety direction): every note selected by a returned proposal is a model note of the
//! requested account, mined in a scanned block of the current branch, not spent by a mined transaction,
//! by an unexpired orphaned transaction or by an unexpired stored (pending) transaction, deep enough for
//! the policy (documented rule), not locked by an owner the policy does not admit, in a pool the policy
//! permits, witnessable at the step's anchor (and the witness hashes to the model's true root there),
//! selected once; every step balances exactly when recomputed from its parts; the payments are the
//! requested ones; the lock table the wallet reports equals the model's lock table after every operation.
//!
//! Liveness is not part of the property statement; two self-evident contradictions of the wallet's own
//! answers are nevertheless detected and counted as observations (DESIGN.md 9.4; see `SIG_SELF_CONTRADICTION`,
//! `SIG_HAVE_GE_NEED`): the InsufficientFunds error reporting `available >= required`, and an
//! InsufficientFunds for a small request while the same wallet reports far more as available when asked
//! for a larger amount. Not covered: transparent inputs / `propose_shielding` (chainsim produces no
//! transparent outputs).

use std::collections::{BTreeMap, BTreeSet};
use std::convert::Infallible;
use std::num::{NonZeroU32, NonZeroUsize};

use chainsim::*;
use incrementalmerkletree::Position;
use orchard::tree::MerkleHashOrchard;
use proptest::prelude::*;
use shardtree::error::ShardTreeError;
use vcore::{vensure, vfail, CaseResult, Ctx, Fail, Obs};
use zcash_client_backend::{
    data_api::{
        error::Error as WalletError,
        wallet::{
            input_selection::{GreedyInputSelector, LockedInputPolicy, NonEmptyBTreeSet, SpendPolicy},
            create_proposed_transactions, propose_send_max_transfer, propose_standard_transfer_to_address, propose_transfer, unlock_proposal_inputs, ConfirmationsPolicy, LockRequest,
            SpendingKeys,
        },
        MaxSpendMode, OutputLockStore, WalletCommitmentTrees,
    },
    fees::{
        standard::{MultiOutputChangeStrategy, SingleOutputChangeStrategy},
        DustOutputPolicy, SplitPolicy, StandardFeeRule,
    },
    proposal::{Proposal, ProposalError, StepOutputIndex},
    wallet::{LockOwner, OutputRef, OvkPolicy},
};
use zcash_client_sqlite::ReceivedNoteId;
use zcash_keys::{
    address::Address,
    keys::{ReceiverRequirement, UnifiedAddressRequest},
};
use zcash_protocol::{consensus::BlockHeight, value::Zatoshis, PoolType, ShieldedPool};
use zcash_transparent::address::TransparentAddress;
use zip321::{Payment, TransactionRequest};

const MAX_MONEY: u64 = 2_100_000_000_000_000;
const N_OWNERS: u8 = 3;

type TreeErr = ShardTreeError<zcash_client_sqlite::wallet::commitment_tree::Error>;
type Prop = Proposal<StandardFeeRule, ReceivedNoteId>;
type NoteKey = (Pool, [u8; 32], u32);

// ---------------------------------------------------------------------------------------------
// Case description
// ---------------------------------------------------------------------------------------------

#[derive(Clone, Copy, Debug, PartialEq, Eq)]
enum AddrKind {
    Sapling,
    UaFull,
    UaOrchard,
    UaSapling,
    UaSaplingP2pkh,
    P2pkh,
    P2sh,
    Tex,
    /// the default unified address of one of the wallet's own accounts
    OwnUa,
}

#[derive(Clone, Copy, Debug)]
enum Amount {
    Tiny(u64),
    /// percentage of the model-spendable total
    Pct(u8),
    /// model-spendable total minus k
    TotalMinus(u64),
    TotalPlus(u64),
    Far,
    /// a canonical ZIP 318 denomination ({1,2,5}*10^k zatoshi, >= 0.01 ZEC) at or below the total, picked from the top
    Canonical(u8),
}

#[derive(Clone, Copy, Debug)]
struct Pay {
    addr: AddrKind,
    /// recipient key set selector
    rk: u8,
    amount: Amount,
}

#[derive(Clone, Copy, Debug)]
enum ChangeSel {
    Single,
    Multi { count: u8, min: u64 },
}

#[derive(Clone, Debug)]
enum Kind {
    Transfer { pays: Vec<Pay>, change: ChangeSel, fallback_orchard: bool },
    Standard { pay: Pay, fallback_orchard: bool },
    SendMax { addr: AddrKind, rk: u8, everything: bool },
    /// `propose_transfer` of one canonical ZIP 318 denomination to an Orchard receiver (pool crossing after NU6.3)
    Crossing { rk: u8, orchard_only_ua: bool, idx: u8 },
    /// `propose_transfer` restricted to the Sapling pool, paying a Sapling or transparent recipient: the shape whose
    /// transaction `Execute` can build with the mock Sapling provers
    SaplingOnly { pay: Pay, multi: bool },
}

#[derive(Clone, Copy, Debug)]
enum LockPol {
    Exclude,
    PreferUnlocked(u8),
    PreferLocked(u8),
}

#[derive(Clone, Debug)]
struct ProposeSpec {
    kind: Kind,
    account: u8,
    trusted: u8,
    untrusted_extra: u8,
    lock_pol: LockPol,
    /// bit 0 Sapling, 1 Orchard, 2 Ironwood
    pools_mask: u8,
    /// (owner, for_blocks)
    lock: Option<(u8, u8)>,
}

#[derive(Clone, Debug)]
enum XOp {
    /// add n empty blocks and scan them
    Advance { n: u8 },
    /// add one generated block (receipts/spends) and scan it
    Receive(BlockSpec),
    /// a plain history op (rewinds, partial scans, tip updates)
    Base(Op),
    /// a block whose transaction spends one wallet note is mined and scanned, then a reorganisation removes that
    /// block (rewind by one + `extra`), and `n` empty blocks of the new branch are scanned: the spender is now an
    /// un-mined transaction with unknown expiry, unexpired for 40 blocks
    SpendThenReorg { sel: u32, pool_hint: Pool, extra: u8, n: u8 },
    Propose(ProposeSpec),
    /// `unlock_proposal_inputs` of an earlier successful proposal under the given owner
    Unlock { sel: u32, owner: u8 },
    ClearLocks { account: u8 },
    /// build (mock provers) and STORE the transaction of an earlier, Sapling-only, single-step proposal:
    /// `create_proposed_transactions` -> `store_transactions_to_be_sent`; the transaction is never mined
    Execute { sel: u32 },
}

#[derive(Clone, Debug)]
struct C08Case {
    base: Case,
    /// busy blocks appended after the base history (so that most wallets hold notes)
    seed_blocks: Vec<BlockSpec>,
    /// empty blocks appended after them (confirmations)
    seed_advance: u8,
    /// `Some(chunk)`: scan every gap before the C08 ops and after every chain extension ("synced wallet");
    /// `None`: leave the gaps of the base history (unscanned-shard situations)
    full_scan: Option<u16>,
    xops: Vec<XOp>,
}

fn arb_addr_kind() -> impl Strategy<Value = AddrKind> {
    prop_oneof![
        3 => Just(AddrKind::Sapling),
        3 => Just(AddrKind::UaFull),
        3 => Just(AddrKind::UaOrchard),
        1 => Just(AddrKind::UaSapling),
        1 => Just(AddrKind::UaSaplingP2pkh),
        2 => Just(AddrKind::P2pkh),
        1 => Just(AddrKind::P2sh),
        2 => Just(AddrKind::Tex),
        1 => Just(AddrKind::OwnUa),
    ]
}

fn arb_amount() -> impl Strategy<Value = Amount> {
    prop_oneof![
        3 => prop_oneof![Just(1u64), Just(1000), Just(5000), Just(5001), Just(10_000), Just(100_000)].prop_map(Amount::Tiny),
        9 => (1u8..100).prop_map(Amount::Pct),
        4 => prop_oneof![Just(0u64), Just(5000), Just(9_999), Just(10_000), Just(10_001), Just(15_000), Just(20_000), Just(25_000), Just(40_000)]
            .prop_map(Amount::TotalMinus),
        1 => prop_oneof![Just(1u64), Just(10_000)].prop_map(Amount::TotalPlus),
        1 => Just(Amount::Far),
        2 => (0u8..4).prop_map(Amount::Canonical),
    ]
}

fn arb_pay() -> impl Strategy<Value = Pay> {
    (arb_addr_kind(), 0u8..2, arb_amount()).prop_map(|(addr, rk, amount)| Pay { addr, rk, amount })
}

fn arb_kind() -> impl Strategy<Value = Kind> {
    let change = prop_oneof![
        2 => Just(ChangeSel::Single),
        1 => (2u8..5, prop_oneof![Just(10_000u64), Just(100_000), Just(1_000_000)]).prop_map(|(count, min)| ChangeSel::Multi { count, min }),
    ];
    prop_oneof![
        6 => (proptest::collection::vec(arb_pay(), 1..=3), change, any::<bool>())
            .prop_map(|(pays, change, fallback_orchard)| Kind::Transfer { pays, change, fallback_orchard }),
        2 => (arb_pay(), any::<bool>()).prop_map(|(pay, fallback_orchard)| Kind::Standard { pay, fallback_orchard }),
        3 => (arb_addr_kind(), 0u8..2, any::<bool>()).prop_map(|(addr, rk, everything)| Kind::SendMax { addr, rk, everything }),
        2 => (0u8..2, any::<bool>(), 0u8..3).prop_map(|(rk, orchard_only_ua, idx)| Kind::Crossing { rk, orchard_only_ua, idx }),
        3 => (0u8..2, prop_oneof![Just(AddrKind::Sapling), Just(AddrKind::P2pkh), Just(AddrKind::UaSapling)], arb_amount(), any::<bool>())
            .prop_map(|(rk, addr, amount, multi)| Kind::SaplingOnly { pay: Pay { addr, rk, amount }, multi }),
    ]
}

fn arb_propose() -> impl Strategy<Value = ProposeSpec> {
    (
        arb_kind(),
        prop_oneof![5 => Just(0u8), 1 => Just(1u8), 1 => Just(2u8)],
        prop_oneof![Just(1u8), Just(1), Just(2), Just(3), Just(3), Just(5), Just(10)],
        prop_oneof![3 => Just(0u8), 2 => 1u8..=3, 2 => 4u8..=10],
        prop_oneof![
            5 => Just(LockPol::Exclude),
            2 => (1u8..8).prop_map(LockPol::PreferUnlocked),
            2 => (1u8..8).prop_map(LockPol::PreferLocked),
        ],
        prop_oneof![6 => Just(7u8), 2 => Just(1u8), 2 => 1u8..8],
        prop::option::weighted(0.6, (0u8..N_OWNERS, prop_oneof![3 => 0u8..11, 1 => 11u8..40])),
    )
        .prop_map(|(kind, account, trusted, untrusted_extra, lock_pol, pools_mask, lock)| ProposeSpec { kind, account, trusted, untrusted_extra, lock_pol, pools_mask, lock })
}

fn arb_xop(na: u8, nf: u8, iw: bool) -> impl Strategy<Value = XOp> {
    prop_oneof![
        14 => arb_propose().prop_map(XOp::Propose),
        3 => prop_oneof![6 => 1u8..=12, 1 => 30u8..=45].prop_map(|n| XOp::Advance { n }),
        2 => arb_block(na, nf, iw, 2, 3).prop_map(XOp::Receive),
        1 => (0u8..6, any::<bool>()).prop_map(|(depth, reorg)| XOp::Base(Op::Truncate { depth, reorg })),
        2 => (any::<u32>(), arb_pool(iw), 0u8..2, 1u8..4).prop_map(|(sel, pool_hint, extra, n)| XOp::SpendThenReorg { sel, pool_hint, extra, n }),
        1 => (any::<u32>(), any::<bool>(), 1u16..12).prop_map(|(which, from_end, chunk)| XOp::Base(Op::ScanGap { which, from_end, chunk })),
        2 => (any::<u32>(), 0u8..N_OWNERS).prop_map(|(sel, owner)| XOp::Unlock { sel, owner }),
        1 => (0u8..3).prop_map(|account| XOp::ClearLocks { account }),
        4 => any::<u32>().prop_map(|sel| XOp::Execute { sel }),
    ]
}

fn arb_c08_case(max_base_ops: usize, p_long: u32) -> impl Strategy<Value = C08Case> {
    (arb_case(max_base_ops, p_long), prop::option::weighted(0.85, 1u16..200), 0u8..16).prop_flat_map(|(base, full_scan, seed_advance)| {
        let iw = base.world.nu6_3_offset.is_some();
        let (na, nf) = (base.world.n_accounts, base.world.n_foreign);
        let busy = proptest::collection::vec(arb_tx(na, nf, iw, 4), 1..=3).prop_map(|txs| BlockSpec { txs });
        (proptest::collection::vec(busy, 0..4), proptest::collection::vec(arb_xop(na, nf, iw), 6..17))
            .prop_map(move |(seed_blocks, xops)| C08Case { base: base.clone(), seed_blocks, seed_advance, full_scan, xops })
    })
}

// ---------------------------------------------------------------------------------------------
// Model
// ---------------------------------------------------------------------------------------------

fn owner_token(i: u8) -> LockOwner {
    LockOwner::new([i + 1; 32])
}

fn model_pool(p: ShieldedPool) -> Pool {
    match p {
        ShieldedPool::Sapling => Pool::Sapling,
        ShieldedPool::Orchard => Pool::Orchard,
        ShieldedPool::Ironwood => Pool::Ironwood,
    }
}

fn wallet_pool(p: Pool) -> ShieldedPool {
    match p {
        Pool::Sapling => ShieldedPool::Sapling,
        Pool::Orchard => ShieldedPool::Orchard,
        Pool::Ironwood => ShieldedPool::Ironwood,
    }
}

struct Stored {
    proposal: Prop,
    keys: Vec<NoteKey>,
    account: u8,
    executed: bool,
}

#[derive(Default)]
struct Stats {
    attempts: u64,
    ok: u64,
    ok_locked: u64,
    multi_step: u64,
    canonical_anchor: u64,
    anchor_deeper: u64,
    crossing_attempts: u64,
    probes: u64,
    insuf_gaps: u64,
    insuf_nothing_selectable: u64,
    insuf_sendmax: u64,
    insuf_amount_near_total: u64,
    insuf_unexplained: u64,
    insuf_despite_spendable: u64,
    self_contradictions: u64,
    have_ge_need: u64,
    selected_notes: u64,
    witnesses_checked: u64,
    err_insufficient: u64,
    err_scan_required: u64,
    err_inputs_locked: u64,
    err_ineligible: u64,
    err_other: u64,
    request_invalid: u64,
    locked_exclusion: u64,
    under_confirmed: u64,
    spent_candidate: u64,
    orphan_candidate: u64,
    pending_spent_candidate: u64,
    wallet_pending_candidate: u64,
    selected_after_pending_expiry: u64,
    executes: u64,
    executed_ok: u64,
    execute_errors: BTreeSet<String>,
    execute_err: u64,
    execute_ineligible: u64,
    gaps_at_attempt: u64,
    nontrivial_attempts: u64,
    max_reasons: u32,
    override_selected_locked: u64,
    insufficient_despite_documented: u64,
    strict_conf_latitude: u64,
    selected_dust: u64,
    everything_partial: u64,
    unlocks: u64,
    unlock_removed: u64,
    clears: u64,
    lock_tables_compared: u64,
    locks_taken: u64,
    other_errors: BTreeSet<String>,
}

struct Model {
    index: BTreeMap<NoteKey, usize>,
    indexed: usize,
    /// note key -> (owner index, expiry height)
    locks: BTreeMap<NoteKey, (u8, u32)>,
    /// note key -> expiry heights of the stored, never-mined transactions that spend it
    pending: BTreeMap<NoteKey, Vec<u32>>,
    stored: Vec<Stored>,
    recipients: Vec<KeySet>,
}

impl Model {
    fn new(world: &World) -> Self {
        let mut seed = world.spec.seed;
        seed[3] ^= 0x77;
        seed[17] ^= 0x11;
        let recipients = (0..2u32).map(|i| KeySet::derive(&world.net, &seed, i)).collect();
        Model { index: BTreeMap::new(), indexed: 0, locks: BTreeMap::new(), pending: BTreeMap::new(), stored: vec![], recipients }
    }

    fn refresh(&mut self, chain: &Chain) {
        for n in &chain.notes[self.indexed..] {
            self.index.insert((n.pool, n.txid, n.out_index), n.id);
        }
        self.indexed = chain.notes.len();
    }
}

#[derive(Clone, Copy, Debug)]
struct Pol {
    trusted: u32,
    untrusted: u32,
    /// owners whose locks the locked-input policy admits (bit mask)
    admits: u8,
    pools_mask: u8,
}

#[derive(Clone, Copy, Debug)]
struct NoteState {
    known: bool,
    mined: bool,
    /// spent by a transaction mined in a scanned block
    spent_mined: bool,
    /// spent by an un-mined (orphaned) transaction that is unexpired under the documented rule
    spent_pending: bool,
    any_link: bool,
    /// enough confirmations under the documented rule (internal scope -> trusted, else untrusted)
    conf_doc: bool,
    /// enough confirmations under the weakest documented reading (also trusted when the receiving
    /// transaction spends a wallet note, i.e. was plausibly created by the wallet)
    conf_weak: bool,
    /// enough confirmations under the strongest reading (untrusted for everything)
    conf_max: bool,
    /// active lock (owner, expiry) at the target height
    lock: Option<(u8, u32)>,
    pool_ok: bool,
    /// spent by a stored (pending) wallet transaction that is unexpired at the target height
    pending: bool,
    ever_pending: bool,
}

fn tx_spends_wallet_note(chain: &Chain, n: &NoteRec) -> bool {
    chain.blocks[n.block_id].txs[n.tx_index as usize].spends.iter().any(|s| s.note.map_or(false, |m| matches!(chain.notes[m].who, Who::Wallet(_))))
}

fn note_state(h: &Hist, m: &Model, nid: usize, target: u32, pol: &Pol) -> NoteState {
    let chain = &h.chain;
    let ledger = &h.ledger;
    let n = &chain.notes[nid];
    let tip = target - 1;
    let unexpired = |b: usize| ledger.scanned.contains(&b) || chain.blocks[b].height + DEFAULT_TX_EXPIRY_DELTA >= tip + 1;
    let mut spent_mined = false;
    let mut spent_pending = false;
    let mut any_link = false;
    for (nn, sb, _) in ledger.links.range((nid, 0, [0u8; 32])..=(nid, usize::MAX, [0xff; 32])) {
        debug_assert_eq!(*nn, nid);
        any_link = true;
        if ledger.scanned.contains(sb) {
            spent_mined = true;
        } else if unexpired(*sb) {
            spent_pending = true;
        }
    }
    let internal = matches!(n.scope, ScopeSel::Internal);
    let deep = |req: u32| n.height + req <= target;
    let key = (n.pool, n.txid, n.out_index);
    NoteState {
        known: ledger.known_notes.contains(&nid),
        mined: ledger.scanned.contains(&n.block_id),
        spent_mined,
        spent_pending,
        any_link,
        conf_doc: deep(if internal { pol.trusted } else { pol.untrusted }),
        conf_weak: deep(if internal || tx_spends_wallet_note(chain, n) { pol.trusted } else { pol.untrusted }),
        conf_max: deep(pol.untrusted),
        lock: m.locks.get(&key).copied().filter(|(_, exp)| *exp >= target),
        pool_ok: pol.pools_mask & (1 << (n.pool as u8)) != 0,
        pending: m.pending.get(&key).map_or(false, |v| v.iter().any(|exp| *exp == 0 || *exp >= target)),
        ever_pending: m.pending.contains_key(&key),
    }
}

fn account_notes(h: &Hist, account: u8) -> Vec<usize> {
    h.ledger.known_notes.iter().copied().filter(|n| h.chain.notes[*n].who == Who::Wallet(account)).collect()
}

// ---------------------------------------------------------------------------------------------
// Addresses / requests
// ---------------------------------------------------------------------------------------------

fn hash20(seed: &[u8], tag: u8) -> [u8; 20] {
    let mut input = seed.to_vec();
    input.push(tag);
    let h = vcore::hash64(&input).to_le_bytes();
    let mut out = [0u8; 20];
    for (i, b) in out.iter_mut().enumerate() {
        *b = h[i % 8] ^ (i as u8).wrapping_mul(31) ^ tag;
    }
    out
}

fn build_address(h: &Hist, m: &Model, kind: AddrKind, rk: u8, own_account: u8) -> Option<Address> {
    use ReceiverRequirement::*;
    let ks = &m.recipients[rk as usize % m.recipients.len()];
    let ua = |ks: &KeySet, req: UnifiedAddressRequest| ks.ufvk.default_address(req).ok().map(|(a, _)| Address::Unified(a));
    match kind {
        AddrKind::Sapling => Some(Address::Sapling(ks.sapling.default_address().1)),
        AddrKind::UaFull => ua(ks, UnifiedAddressRequest::ALLOW_ALL),
        AddrKind::UaOrchard => ua(ks, UnifiedAddressRequest::ORCHARD),
        AddrKind::UaSapling => ua(ks, UnifiedAddressRequest::unsafe_custom(Omit, Require, Omit)),
        AddrKind::UaSaplingP2pkh => ua(ks, UnifiedAddressRequest::unsafe_custom(Omit, Require, Require)),
        AddrKind::P2pkh => Some(Address::Transparent(TransparentAddress::PublicKeyHash(hash20(&ks.seed, 1 + rk)))),
        AddrKind::P2sh => Some(Address::Transparent(TransparentAddress::ScriptHash(hash20(&ks.seed, 11 + rk)))),
        AddrKind::Tex => Some(Address::Tex(hash20(&ks.seed, 21 + rk))),
        AddrKind::OwnUa => {
            // another account of the wallet when there is one, else the spending account itself
            let n = h.world.accounts.len() as u8;
            let other = (own_account + 1 + rk) % n;
            ua(&h.world.accounts[other as usize], UnifiedAddressRequest::SHIELDED)
        }
    }
}

fn canonical_denominations() -> Vec<u64> {
    let mut v = vec![];
    for k in 6..=12u32 {
        for m in [1u64, 2, 5] {
            let d = m * 10u64.pow(k);
            if d <= 1_000_000_000_000 {
                v.push(d);
            }
        }
    }
    v.sort();
    v
}

fn resolve_amount(a: Amount, total: u64) -> u64 {
    let v = match a {
        Amount::Tiny(v) => v,
        Amount::Pct(p) => (total as u128 * p as u128 / 100) as u64,
        Amount::TotalMinus(k) => total.saturating_sub(k),
        Amount::TotalPlus(k) => total.saturating_add(k),
        Amount::Far => total.saturating_mul(3).saturating_add(1_000_000),
        Amount::Canonical(i) => {
            let all = canonical_denominations();
            let fit: Vec<u64> = all.iter().copied().filter(|d| *d <= total.saturating_sub(10_000)).collect();
            if fit.is_empty() {
                all[0]
            } else {
                fit[fit.len() - 1 - (i as usize).min(fit.len() - 1)]
            }
        }
    };
    v.clamp(1, MAX_MONEY)
}

// ---------------------------------------------------------------------------------------------
// Wallet access helpers
// ---------------------------------------------------------------------------------------------

/// `Ok(Some(root))`: the tree produced a witness for `pos` at checkpoint `anchor`, hashing to `root` with leaf `cm`.
fn witness_root(db: &mut Db, pool: Pool, pos: u64, anchor: u32, cm: &[u8; 32]) -> Result<Option<[u8; 32]>, String> {
    let ah = BlockHeight::from_u32(anchor);
    match pool {
        Pool::Sapling => {
            let leaf = Option::<sapling::Node>::from(sapling::Node::from_bytes(*cm)).ok_or("model commitment is not a sapling node")?;
            db.with_sapling_tree_mut::<_, _, TreeErr>(|t| Ok(t.witness_at_checkpoint_id(Position::from(pos), &ah)?.map(|p| p.root(leaf).to_bytes()))).map_err(|e| format!("{e:?}"))
        }
        Pool::Orchard => {
            let leaf = Option::<MerkleHashOrchard>::from(MerkleHashOrchard::from_bytes(cm)).ok_or("model commitment is not an orchard node")?;
            db.with_orchard_tree_mut::<_, _, TreeErr>(|t| Ok(t.witness_at_checkpoint_id(Position::from(pos), &ah)?.map(|p| p.root(leaf).to_bytes()))).map_err(|e| format!("{e:?}"))
        }
        Pool::Ironwood => {
            let leaf = Option::<MerkleHashOrchard>::from(MerkleHashOrchard::from_bytes(cm)).ok_or("model commitment is not an orchard node")?;
            db.with_ironwood_tree_mut::<_, _, TreeErr>(|t| Ok(t.witness_at_checkpoint_id(Position::from(pos), &ah)?.map(|p| p.root(leaf).to_bytes())))
                .map_err(|e| format!("{e:?}"))
                .map(|o| o.flatten())
        }
    }
}

fn true_root(chain: &Chain, pool: Pool, height: u32) -> Option<[u8; 32]> {
    if height != chain.base_height && chain.block_at(height).is_none() {
        return None;
    }
    let st = chain.state_at(height);
    Some(match pool {
        Pool::Sapling => st.final_sapling_tree().root().to_bytes(),
        Pool::Orchard => st.final_orchard_tree().root().to_bytes(),
        Pool::Ironwood => st.final_ironwood_tree().root().to_bytes(),
    })
}

fn output_ref_key(r: &OutputRef) -> Option<NoteKey> {
    match r.pool() {
        PoolType::Shielded(p) => Some((model_pool(p), *r.txid().as_ref(), r.output_index())),
        PoolType::Transparent => None,
    }
}

/// Compares the wallet's reported lock set with the model's, for every account.
fn compare_lock_tables(h: &mut Hist, m: &Model, st: &mut Stats, step: &str) -> Result<(), Fail> {
    let Some(tip) = h.w.chain_height() else { return Ok(()) };
    for (ai, acct) in h.w.accounts.clone().iter().enumerate() {
        let got = h.w.db().get_locked_outputs(*acct).map_err(|e| Fail::new("get-locked-outputs-error", format!("{step}: {e:?}")))?;
        let mut got_keys = BTreeSet::new();
        for r in &got {
            match output_ref_key(r) {
                Some(k) => {
                    vensure!(got_keys.insert(k), "locked-output-listed-twice", "{step}: get_locked_outputs lists {r:?} twice");
                }
                None => vfail!("transparent-output-locked", "{step}: get_locked_outputs reports a transparent output {r:?}; the wallet holds none"),
            }
        }
        let want: BTreeSet<NoteKey> = m
            .locks
            .iter()
            .filter(|(k, (_, exp))| *exp > tip && m.index.get(*k).map_or(false, |n| h.chain.notes[*n].who == Who::Wallet(ai as u8)))
            .map(|(k, _)| *k)
            .collect();
        st.lock_tables_compared += 1;
        if got_keys != want {
            vfail!(
                "lock-table-mismatch",
                "{step}: account {ai}: get_locked_outputs (tip {tip}) = {:?} but the model's active locks are {:?}; model table {:?}",
                got_keys.iter().map(|k| (k.0, hex::encode(&k.1[..4]), k.2)).collect::<Vec<_>>(),
                want.iter().map(|k| (k.0, hex::encode(&k.1[..4]), k.2)).collect::<Vec<_>>(),
                m.locks.iter().map(|(k, v)| ((k.0, hex::encode(&k.1[..4]), k.2), *v)).collect::<Vec<_>>()
            );
        }
    }
    Ok(())
}

// ---------------------------------------------------------------------------------------------
// Proposal execution
// ---------------------------------------------------------------------------------------------

enum PErr {
    Insufficient { available: u64, required: u64 },
    ScanRequired,
    InputsLocked(OutputRef),
    /// `MaxSpendMode::Everything` with ineligible notes (documented), surfaced as a data-source error
    Ineligible,
    Other(String, String),
}

fn classify<DE: std::fmt::Debug, TE: std::fmt::Debug, SE: std::fmt::Debug, FE: std::fmt::Debug, CE: std::fmt::Debug, N: std::fmt::Debug>(e: WalletError<DE, TE, SE, FE, CE, N>) -> PErr {
    match e {
        WalletError::InsufficientFunds { available, required } => PErr::Insufficient { available: u64::from(available), required: u64::from(required) },
        WalletError::ScanRequired => PErr::ScanRequired,
        WalletError::Proposal(ProposalError::InputsLocked(r)) => PErr::InputsLocked(r),
        WalletError::DataSource(ref d) if format!("{d:?}").contains("IneligibleNotes") => PErr::Ineligible,
        other => {
            let dbg = format!("{other:?}");
            let variant: String = dbg.chars().take_while(|c| c.is_alphanumeric() || *c == '(' || *c == '_').take(60).collect();
            PErr::Other(variant, dbg)
        }
    }
}

struct Resolved {
    /// (address, amount) of every requested payment (empty for send-max)
    pays: Vec<(Address, u64)>,
    pol: Pol,
}

fn locked_input_policy(lp: LockPol) -> LockedInputPolicy {
    let set = |mask: u8| {
        let owners: BTreeSet<LockOwner> = (0..N_OWNERS).filter(|i| mask & (1 << i) != 0).map(owner_token).collect();
        NonEmptyBTreeSet::from_set(owners)
    };
    match lp {
        LockPol::Exclude => LockedInputPolicy::Exclude,
        LockPol::PreferUnlocked(mask) => set(mask).map(LockedInputPolicy::PreferUnlocked).unwrap_or(LockedInputPolicy::Exclude),
        LockPol::PreferLocked(mask) => set(mask).map(LockedInputPolicy::PreferLocked).unwrap_or(LockedInputPolicy::Exclude),
    }
}

fn admits_mask(lp: LockPol) -> u8 {
    match lp {
        LockPol::Exclude => 0,
        LockPol::PreferUnlocked(m) | LockPol::PreferLocked(m) => m & ((1 << N_OWNERS) - 1),
    }
}

fn shielded_pools(mask: u8) -> Vec<ShieldedPool> {
    Pool::ALL.iter().filter(|p| mask & (1 << (**p as u8)) != 0).map(|p| wallet_pool(*p)).collect()
}

/// `propose_transfer` with the greedy selector and the given change strategy; `None` = the payments do not form a valid request.
#[allow(clippy::too_many_arguments)]
fn run_transfer(
    db: &mut Db,
    net: &zcash_protocol::local_consensus::LocalNetwork,
    acct_id: zcash_client_sqlite::AccountUuid,
    pays: &[(Address, u64)],
    change: ChangeSel,
    fallback: ShieldedPool,
    policy: ConfirmationsPolicy,
    sp: &SpendPolicy,
    lock_req: Option<LockRequest>,
) -> Option<Result<Result<Prop, PErr>, String>> {
    let payments: Vec<Payment> = pays.iter().map(|(a, v)| Payment::without_memo(a.to_zcash_address(net), Zatoshis::from_u64(*v).unwrap())).collect();
    let request = TransactionRequest::new(payments).ok()?;
    let selector = GreedyInputSelector::<Db>::new();
    Some(match change {
        ChangeSel::Single => {
            let cs = SingleOutputChangeStrategy::<Db>::new(StandardFeeRule::Zip317, None, fallback, DustOutputPolicy::default());
            vcore::catch(|| propose_transfer::<_, _, _, _, Infallible>(db, net, acct_id, &selector, &cs, request, policy, sp, lock_req, None).map_err(classify))
        }
        ChangeSel::Multi { count, min } => {
            let cs = MultiOutputChangeStrategy::<Db>::new(
                StandardFeeRule::Zip317,
                None,
                fallback,
                DustOutputPolicy::default(),
                SplitPolicy::with_min_output_value(NonZeroUsize::new(count.max(1) as usize).unwrap(), Zatoshis::from_u64(min).unwrap()),
            );
            vcore::catch(|| propose_transfer::<_, _, _, _, Infallible>(db, net, acct_id, &selector, &cs, request, policy, sp, lock_req, None).map_err(classify))
        }
    })
}

/// Signature of the observation (outside C08's statement; DESIGN.md 9.4): input selection reports InsufficientFunds although the same wallet, asked for more
/// under the same policies, reports enough available value.
const SIG_SELF_CONTRADICTION: &str = "insufficient-funds-contradicts-own-available";
/// Signature of the observation (outside C08's statement): the InsufficientFunds error itself reports `available >= required`.
const SIG_HAVE_GE_NEED: &str = "insufficient-funds-reports-available-at-least-required";

#[allow(clippy::too_many_arguments)]
fn do_propose(ctx: &Ctx, h: &mut Hist, m: &mut Model, st: &mut Stats, spec: &ProposeSpec, step: &str) -> Result<(), Fail> {
    m.refresh(&h.chain);
    let Some(wtip) = h.w.chain_height() else { return Ok(()) };
    if wtip != h.chain.tip_height() {
        // cannot happen after ensure_tip_known; never judge a proposal against a different tip
        return Ok(());
    }
    let target = wtip + 1;
    let trusted = spec.trusted.max(1) as u32;
    let untrusted = trusted + spec.untrusted_extra as u32;

    // The API of each kind fixes some of the policy.
    let (lock_pol, pools_mask) = match &spec.kind {
        Kind::Transfer { .. } | Kind::Crossing { .. } => (spec.lock_pol, spec.pools_mask & 7),
        Kind::SaplingOnly { .. } => (spec.lock_pol, 1),
        Kind::Standard { .. } => (LockPol::Exclude, 7),
        Kind::SendMax { .. } => (spec.lock_pol, spec.pools_mask & 7),
    };
    let pol = Pol { trusted, untrusted, admits: admits_mask(lock_pol), pools_mask };

    // `spec.account` is a RANK: accounts ordered by the value the model considers selectable right now
    // (so that most proposals address an account that holds something), ties by index.
    let account = {
        let mut ranked: Vec<(u64, u8)> = (0..h.world.accounts.len() as u8)
            .map(|a| {
                let v: u64 = account_notes(h, a)
                    .iter()
                    .map(|n| (h.chain.notes[*n].value, note_state(h, m, *n, target, &pol)))
                    .filter(|(v, s)| s.known && s.mined && !s.spent_mined && !s.spent_pending && !s.pending && s.conf_doc && s.pool_ok && *v > MARGINAL_FEE && s.lock.map_or(true, |(o, _)| pol.admits & (1 << o) != 0))
                    .map(|(v, _)| v)
                    .fold(0u64, |a, b| a.saturating_add(b));
                (v, a)
            })
            .collect();
        ranked.sort_by(|x, y| y.0.cmp(&x.0).then(x.1.cmp(&y.1)));
        ranked[(spec.account as usize).min(ranked.len() - 1)].1
    };
    let acct_id = h.w.accounts[account as usize];

    // Model view of the account at this moment.
    let notes = account_notes(h, account);
    let states: Vec<(usize, NoteState)> = notes.iter().map(|n| (*n, note_state(h, m, *n, target, &pol))).collect();
    let locked_out = |s: &NoteState| s.lock.map_or(false, |(o, _)| pol.admits & (1 << o) == 0);
    let live = |s: &NoteState| s.known && s.mined && !s.spent_mined && !s.spent_pending && !s.pending;
    let mut basis = 0u64;
    let mut all_unspent_mined = 0u64;
    let mut conservative = 0u64;
    let mut documented = 0u64;
    let mut dust_candidates = 0u32;
    let (mut n_live, mut n_underconf, mut n_locked_out, mut n_spent, mut n_orphan, mut n_pending, mut n_wallet_pending) = (0, 0, 0, 0, 0, 0, 0);
    for (nid, s) in &states {
        let v = h.chain.notes[*nid].value;
        if s.known && s.mined && !s.spent_mined {
            all_unspent_mined = all_unspent_mined.saturating_add(v);
        }
        if s.spent_mined {
            n_spent += 1;
        }
        if !s.mined {
            n_orphan += 1;
        }
        if s.mined && !s.spent_mined && s.spent_pending {
            n_pending += 1;
        }
        if s.mined && !s.spent_mined && s.pending {
            n_wallet_pending += 1;
        }
        if live(s) {
            n_live += 1;
            if !s.conf_doc {
                n_underconf += 1;
            }
            if s.conf_doc && locked_out(s) {
                n_locked_out += 1;
            }
            if v <= MARGINAL_FEE {
                dust_candidates += 1;
            }
            if s.pool_ok && s.conf_doc && !locked_out(s) && v > MARGINAL_FEE {
                basis = basis.saturating_add(v);
                documented = documented.saturating_add(v);
            }
            if s.pool_ok && s.conf_max && s.lock.is_none() && !s.any_link && !s.ever_pending && v > 2 * MARGINAL_FEE {
                conservative = conservative.saturating_add(v);
            }
        }
    }
    let gaps_exist = !gaps(&h.chain, &h.ledger).is_empty();
    st.attempts += 1;
    st.under_confirmed += (n_underconf > 0) as u64;
    st.locked_exclusion += (n_locked_out > 0) as u64;
    st.spent_candidate += (n_spent > 0) as u64;
    st.orphan_candidate += (n_orphan > 0) as u64;
    st.pending_spent_candidate += (n_pending > 0) as u64;
    st.wallet_pending_candidate += (n_wallet_pending > 0) as u64;
    st.gaps_at_attempt += gaps_exist as u64;
    let ineligible_reasons = (n_underconf > 0) as u32 + (n_locked_out > 0) as u32 + (n_spent > 0) as u32 + (n_orphan > 0) as u32 + (n_pending > 0) as u32 + (n_wallet_pending > 0) as u32 + (gaps_exist && n_live > 0) as u32;
    if n_live >= 2 && ineligible_reasons >= 1 {
        st.nontrivial_attempts += 1;
    }
    if n_live >= 1 {
        st.max_reasons = st.max_reasons.max(ineligible_reasons);
    }

    // Resolve the request.
    let net = h.world.net;
    let policy = ConfirmationsPolicy::new(NonZeroU32::new(trusted).unwrap(), NonZeroU32::new(untrusted).unwrap(), true).expect("trusted <= untrusted");
    let lock_req = spec.lock.map(|(o, fb)| LockRequest::new(owner_token(o % N_OWNERS), fb as u32));
    let mut resolved = Resolved { pays: vec![], pol };
    let mk_pays = |pays: &[Pay], h: &Hist, m: &Model| -> Option<Vec<(Address, u64)>> {
        let mut remaining = basis;
        let mut out = vec![];
        for p in pays {
            let addr = build_address(h, m, p.addr, p.rk, account)?;
            let amt = resolve_amount(p.amount, remaining);
            remaining = remaining.saturating_sub(amt);
            out.push((addr, amt));
        }
        Some(out)
    };
    let fb = |o: bool| if o { ShieldedPool::Orchard } else { ShieldedPool::Sapling };
    // what to re-ask with a huge amount when the wallet reports InsufficientFunds
    let mut probe: Option<(Vec<(Address, u64)>, ChangeSel, ShieldedPool, SpendPolicy)> = None;

    let result: Result<Result<Prop, PErr>, String> = match &spec.kind {
        Kind::Transfer { pays, change, fallback_orchard } => {
            let Some(ps) = mk_pays(pays, h, m) else {
                st.request_invalid += 1;
                return Ok(());
            };
            resolved.pays = ps.clone();
            let sp = SpendPolicy::shielded_pools(shielded_pools(pools_mask)).with_locked_input_policy(locked_input_policy(lock_pol));
            probe = Some((ps.clone(), *change, fb(*fallback_orchard), sp.clone()));
            match run_transfer(h.w.db(), &net, acct_id, &ps, *change, fb(*fallback_orchard), policy, &sp, lock_req) {
                Some(r) => r,
                None => {
                    st.request_invalid += 1;
                    return Ok(());
                }
            }
        }
        Kind::SaplingOnly { pay, multi } => {
            let Some(ps) = mk_pays(std::slice::from_ref(pay), h, m) else {
                st.request_invalid += 1;
                return Ok(());
            };
            resolved.pays = ps.clone();
            let change = if *multi { ChangeSel::Multi { count: 3, min: 100_000 } } else { ChangeSel::Single };
            let sp = SpendPolicy::shielded_pools(shielded_pools(pools_mask)).with_locked_input_policy(locked_input_policy(lock_pol));
            probe = Some((ps.clone(), change, ShieldedPool::Sapling, sp.clone()));
            match run_transfer(h.w.db(), &net, acct_id, &ps, change, ShieldedPool::Sapling, policy, &sp, lock_req) {
                Some(r) => r,
                None => {
                    st.request_invalid += 1;
                    return Ok(());
                }
            }
        }
        Kind::Crossing { rk, orchard_only_ua, idx } => {
            // one payment of a canonical ZIP 318 denomination to an Orchard receiver, sized to fit the largest
            // selectable Orchard note: the shape `propose_transfer` tries to build against a bucketed anchor
            let biggest = states.iter().filter(|(n, s)| h.chain.notes[*n].pool == Pool::Orchard && live(s) && s.conf_doc && !locked_out(s)).map(|(n, _)| h.chain.notes[*n].value).max().unwrap_or(0);
            let amt = resolve_amount(Amount::Canonical(*idx), biggest.saturating_sub(10_000));
            let Some(addr) = build_address(h, m, if *orchard_only_ua { AddrKind::UaOrchard } else { AddrKind::UaFull }, *rk, account) else {
                st.request_invalid += 1;
                return Ok(());
            };
            let ps = vec![(addr, amt)];
            resolved.pays = ps.clone();
            st.crossing_attempts += 1;
            let sp = SpendPolicy::shielded_pools(shielded_pools(pools_mask)).with_locked_input_policy(locked_input_policy(lock_pol));
            probe = Some((ps.clone(), ChangeSel::Single, ShieldedPool::Orchard, sp.clone()));
            match run_transfer(h.w.db(), &net, acct_id, &ps, ChangeSel::Single, ShieldedPool::Orchard, policy, &sp, lock_req) {
                Some(r) => r,
                None => {
                    st.request_invalid += 1;
                    return Ok(());
                }
            }
        }
        Kind::Standard { pay, fallback_orchard } => {
            let Some(ps) = mk_pays(std::slice::from_ref(pay), h, m) else {
                st.request_invalid += 1;
                return Ok(());
            };
            resolved.pays = ps.clone();
            let (addr, amt) = ps[0].clone();
            probe = Some((ps.clone(), ChangeSel::Single, fb(*fallback_orchard), SpendPolicy::default()));
            let db = h.w.db();
            vcore::catch(|| {
                propose_standard_transfer_to_address::<_, _, Infallible>(
                    db,
                    &net,
                    StandardFeeRule::Zip317,
                    acct_id,
                    policy,
                    &addr,
                    Zatoshis::from_u64(amt).unwrap(),
                    None,
                    None,
                    fb(*fallback_orchard),
                    lock_req,
                    None,
                )
                .map_err(classify)
            })
        }
        Kind::SendMax { addr, rk, everything } => {
            let Some(a) = build_address(h, m, *addr, *rk, account) else {
                st.request_invalid += 1;
                return Ok(());
            };
            let mode = if *everything { MaxSpendMode::Everything } else { MaxSpendMode::MaxSpendable };
            let lip = locked_input_policy(lock_pol);
            let pools = shielded_pools(pools_mask);
            let db = h.w.db();
            vcore::catch(|| {
                propose_send_max_transfer::<_, _, _, Infallible>(db, &net, acct_id, &pools, &StandardFeeRule::Zip317, a.to_zcash_address(&net), None, mode, policy, &lip, lock_req).map_err(classify)
            })
        }
    };

    let result = match result {
        Ok(r) => r,
        Err(p) => vfail!(format!("propose-panic:{}", vcore::panic_site(&p)), "{step}: the proposal function panicked: {p}; spec {spec:?}"),
    };

    match result {
        Ok(proposal) => {
            st.ok += 1;
            let keys = check_proposal(h, m, st, spec, &resolved, &states, account, target, &proposal, all_unspent_mined, step)?;
            if let Some((o, fbk)) = spec.lock {
                let o = o % N_OWNERS;
                st.ok_locked += 1;
                // the documented effect of `lock_inputs`
                for k in &keys {
                    m.locks.insert(*k, (o, target + fbk as u32));
                    st.locks_taken += 1;
                }
                let got = h.w.db().get_locked_outputs(acct_id).map_err(|e| Fail::new("get-locked-outputs-error", format!("{step}: {e:?}")))?;
                let got: BTreeSet<NoteKey> = got.iter().filter_map(output_ref_key).collect();
                for k in &keys {
                    vensure!(
                        got.contains(k),
                        "selected-input-not-locked",
                        "{step}: the proposal was created with lock_inputs (owner {o}, for_blocks {fbk}, target {target}) but get_locked_outputs does not list its input {:?}",
                        (k.0, hex::encode(k.1), k.2)
                    );
                }
            }
            m.stored.push(Stored { proposal, keys, account, executed: false });
        }
        Err(PErr::Insufficient { available, required }) => {
            st.err_insufficient += 1;
            let requested: u64 = resolved.pays.iter().map(|x| x.1).sum();
            if gaps_exist {
                st.insuf_gaps += 1;
            } else if basis == 0 {
                st.insuf_nothing_selectable += 1;
            } else if matches!(spec.kind, Kind::SendMax { .. }) {
                st.insuf_sendmax += 1;
            } else if requested.saturating_add(10_000 + MARGINAL_FEE * n_live as u64) > basis {
                st.insuf_amount_near_total += 1;
            } else {
                st.insuf_unexplained += 1;
                if std::env::var("VERIF_C08_DEBUG").is_ok() && available >= required {
                    eprintln!(
                        "[c08-debug] HAVE>=NEED {step}: available {available} required {required}; target {target}; notes {:?}",
                        states.iter().map(|(n, s)| (h.chain.notes[*n].pool, h.chain.notes[*n].value, h.chain.notes[*n].height, h.chain.notes[*n].scope, h.chain.notes[*n].position, *s)).collect::<Vec<_>>()
                    );
                }
                if std::env::var("VERIF_C08_DEBUG").is_ok() {
                    eprintln!("[c08-debug] unexplained insufficient: requested {requested} basis {basis} available {available} required {required} kind {:?} pol {pol:?}", spec.kind);
                }
            }
            let everything_scanned = !gaps_exist;
            // set when this failure already exhibits one of the two known liveness findings
            let mut explained_by_known = false;
            // The error's own numbers: "insufficient" with available >= required contradicts itself.
            if available >= required {
                st.have_ge_need += 1;
                explained_by_known = true;
                // OBSERVATION outside property C08's statement (C08 is a safety property: it does not promise that
                // a coverable request yields a proposal). Counted under a label, never reported (DESIGN.md 9.4).
                let _ = SIG_HAVE_GE_NEED;
            }
            // Self-consistency: ask the same wallet, same account, same policies for MORE than it can hold. The
            // `available` it reports then is everything it considers selectable; if that exceeds what the failed
            // request required (plus the fee of spending every note the account has), the two answers contradict.
            if let Some((ps, change, fallback, sp)) = &probe {
                let mut big = ps.clone();
                big[0].1 = MAX_MONEY / 4;
                st.probes += 1;
                if let Some(Ok(Err(PErr::Insufficient { available: avail2, required: req2 }))) = run_transfer(h.w.db(), &net, acct_id, &big, *change, *fallback, policy, sp, None) {
                    let margin = MARGINAL_FEE * (n_live as u64 + 8) + 50_000;
                    if avail2 >= required.saturating_add(margin) {
                        st.self_contradictions += 1;
                        explained_by_known = true;
                        // OBSERVATION outside property C08's statement, as above: counted, never reported.
                        let _ = SIG_SELF_CONTRADICTION;
                    }
                }
            }
            // Liveness is only flagged on overwhelming evidence (see the rule text in main()).
            if !explained_by_known && everything_scanned && dust_candidates == 0 && conservative >= required.saturating_add(100_000 + MARGINAL_FEE * (n_live as u64 + 8)) && !matches!(spec.kind, Kind::SendMax { .. }) {
                // Liveness is not part of C08's statement either: counted only.
                st.insuf_despite_spendable += 1;
            }
            if everything_scanned && documented >= required.saturating_add(50_000) {
                st.insufficient_despite_documented += 1;
                if std::env::var("VERIF_C08_DEBUG").is_ok() {
                    eprintln!(
                        "[c08-debug] {step}: InsufficientFunds {{ available: {available}, required: {required} }} but documented-spendable {documented} (conservative {conservative}); target {target} pol {pol:?}; notes {:?}",
                        states.iter().map(|(n, s)| (h.chain.notes[*n].pool, h.chain.notes[*n].value, h.chain.notes[*n].height, h.chain.notes[*n].scope, h.chain.notes[*n].position, *s)).collect::<Vec<_>>()
                    );
                }
            }
        }
        Err(PErr::ScanRequired) => st.err_scan_required += 1,
        Err(PErr::Ineligible) => st.err_ineligible += 1,
        Err(PErr::InputsLocked(r)) => {
            st.err_inputs_locked += 1;
            // documented: acquisition fails only on an ACTIVE lock of a DIFFERENT owner
            let req_owner = spec.lock.map(|(o, _)| o % N_OWNERS);
            let entry = output_ref_key(&r).and_then(|k| m.locks.get(&k).copied());
            let ok = match (req_owner, entry) {
                (Some(ro), Some((lo, exp))) => lo != ro && exp >= target,
                _ => false,
            };
            vensure!(
                ok,
                "inputs-locked-without-foreign-lock",
                "{step}: InputsLocked({r:?}) but the model has lock entry {entry:?} for it (requesting owner {req_owner:?}, target {target})"
            );
        }
        Err(PErr::Other(variant, dbg)) => {
            st.err_other += 1;
            if st.other_errors.len() < 8 {
                st.other_errors.insert(format!("{variant} {}", dbg.chars().take(80).collect::<String>()));
            }
            if std::env::var("VERIF_C08_DEBUG").is_ok() {
                eprintln!("[c08-debug] other error: {} :: kind {:?}", dbg.chars().take(400).collect::<String>(), spec.kind);
            }
        }
    }
    // a failed proposal must leave the lock state untouched, a successful one must have changed exactly the selected inputs
    compare_lock_tables(h, m, st, step)?;
    Ok(())
}

#[allow(clippy::too_many_arguments)]
fn check_proposal(
    h: &mut Hist,
    m: &Model,
    st: &mut Stats,
    spec: &ProposeSpec,
    rs: &Resolved,
    states: &[(usize, NoteState)],
    account: u8,
    target: u32,
    p: &Prop,
    all_unspent_mined: u64,
    step: &str,
) -> Result<Vec<NoteKey>, Fail> {
    let pol = &rs.pol;
    let state_of: BTreeMap<usize, NoteState> = states.iter().copied().collect();
    vensure!(
        u32::from(p.min_target_height()) == target,
        "target-height-not-tip-plus-1",
        "{step}: proposal min_target_height {} but the wallet's chain tip is {} ",
        u32::from(p.min_target_height()),
        target - 1
    );
    let steps: Vec<_> = p.steps().iter().collect();
    if u32::from(p.confirmations_policy().trusted()) > pol.trusted {
        st.canonical_anchor += 1;
    }
    if steps.len() > 1 {
        st.multi_step += 1;
    }
    let mut seen: BTreeSet<NoteKey> = BTreeSet::new();
    let mut keys = vec![];
    let mut consumed_prior: BTreeSet<(usize, String)> = BTreeSet::new();
    let mut paid: Vec<(String, u64)> = vec![];
    let mut selected_total = 0u64;
    let mut fees_total = 0u64;
    for (si, s) in steps.iter().enumerate() {
        vensure!(s.transparent_inputs().is_empty(), "transparent-input-selected", "{step}: step {si} selects transparent inputs {:?}; the wallet owns none", s.transparent_inputs());
        let mut in_total: u64 = 0;
        if let Some(inputs) = s.shielded_inputs() {
            let anchor = match s.anchor_height() {
                Some(a) => u32::from(a),
                None => vfail!("shielded-step-without-anchor", "{step}: step {si} spends shielded notes but has no anchor height"),
            };
            vensure!(anchor < target, "anchor-not-below-target", "{step}: step {si} anchor {anchor} is not below the target height {target}");
            if anchor + pol.trusted < target {
                st.anchor_deeper += 1;
            }
            for rn in inputs.notes().iter() {
                st.selected_notes += 1;
                let pool = model_pool(rn.note().pool());
                let key: NoteKey = (pool, *rn.txid().as_ref(), rn.output_index() as u32);
                let desc = format!("{pool:?} {}:{} value {}", hex::encode(key.1), key.2, u64::from(rn.note().value()));
                // (vi)
                vensure!(seen.insert(key), "input-selected-twice", "{step}: note {desc} appears twice among the proposal's inputs");
                keys.push(key);
                // (i)
                let Some(nid) = m.index.get(&key).copied() else {
                    vfail!("selected-unknown-note", "{step}: selected note {desc} does not exist in the model chain");
                };
                let n = h.chain.notes[nid].clone();
                vensure!(
                    n.who == Who::Wallet(account),
                    "selected-foreign-account-note",
                    "{step}: selected note {desc} belongs to {:?}, the proposal spends from account {account}",
                    n.who
                );
                vensure!(
                    u64::from(rn.note().value()) == n.value
                        && u64::from(rn.note_commitment_tree_position()) == n.position
                        && rn.spending_key_scope() == scope_of(n.scope)
                        && rn.mined_height().map(u32::from) == Some(n.height),
                    "selected-note-metadata-mismatch",
                    "{step}: selected note {desc}: wallet says position {:?} scope {:?} mined {:?}; model note {n:?}",
                    rn.note_commitment_tree_position(),
                    rn.spending_key_scope(),
                    rn.mined_height()
                );
                let Some(s0) = state_of.get(&nid).copied() else {
                    vfail!("selected-never-scanned-note", "{step}: selected note {desc} was never in a scanned block (model note {n:?})");
                };
                // (ii)
                vensure!(s0.mined, "selected-orphaned-note", "{step}: selected note {desc} was received in block {} at height {} which is not a scanned block of the current branch", n.block_id, n.height);
                vensure!(!s0.spent_mined, "selected-spent-note", "{step}: selected note {desc} is spent by a transaction mined in a scanned block (links {:?})", links_of(h, nid));
                vensure!(
                    !s0.spent_pending,
                    "selected-note-spent-by-unexpired-tx",
                    "{step}: selected note {desc} is spent by an un-mined transaction that is unexpired under the documented rule (first seen at height h, h + 40 >= target {target}); links {:?}",
                    links_of(h, nid)
                );
                if s0.ever_pending && !s0.pending {
                    st.selected_after_pending_expiry += 1;
                }
                vensure!(
                    !s0.pending,
                    "selected-note-spent-by-pending-tx",
                    "{step}: selected note {desc} is spent by a transaction the wallet stored with store_transactions_to_be_sent, unexpired at target {target} (expiry heights {:?})",
                    m.pending.get(&key)
                );
                // (iii)
                let stabilized = witness_stabilized(h, &key);
                if !stabilized {
                    vensure!(
                        s0.conf_weak,
                        "selected-underconfirmed-note",
                        "{step}: selected note {desc} mined at {} scope {:?} under policy trusted {} / untrusted {} at target {target}: needs mined_height + required <= target",
                        n.height,
                        n.scope,
                        pol.trusted,
                        pol.untrusted
                    );
                    if !s0.conf_doc {
                        st.strict_conf_latitude += 1;
                    }
                }
                // (iv)
                if let Some((o, exp)) = s0.lock {
                    vensure!(
                        pol.admits & (1 << o) != 0,
                        "selected-locked-note",
                        "{step}: selected note {desc} is locked by owner {o} until {exp} (target {target}) and the locked-input policy admits owners mask {:#b}",
                        pol.admits
                    );
                    st.override_selected_locked += 1;
                }
                // pool restriction of the spend policy
                vensure!(s0.pool_ok, "selected-note-from-forbidden-pool", "{step}: selected note {desc} but the spend policy permits pools mask {:#b}", pol.pools_mask);
                // (v)
                match witness_root(h.w.db(), pool, n.position, anchor, &n.cm) {
                    Ok(Some(root)) => {
                        st.witnesses_checked += 1;
                        if let Some(tr) = true_root(&h.chain, pool, anchor) {
                            vensure!(
                                root == tr,
                                "selected-note-witness-root-wrong",
                                "{step}: witness of selected note {desc} at anchor {anchor} hashes to {} but the chain's {pool:?} root there is {}",
                                hex::encode(root),
                                hex::encode(tr)
                            );
                        } else {
                            vfail!("anchor-off-chain", "{step}: step anchor {anchor} is not a height of the current chain (tip {})", h.chain.tip_height());
                        }
                    }
                    Ok(None) => vfail!("selected-note-not-witnessable", "{step}: witness_at_checkpoint_id(position {}, anchor {anchor}) returned None for selected note {desc} (mined at {})", n.position, n.height),
                    Err(e) => vfail!("selected-note-not-witnessable", "{step}: witness_at_checkpoint_id(position {}, anchor {anchor}) failed for selected note {desc} (mined at {}): {e}", n.position, n.height),
                }
                if n.value <= MARGINAL_FEE {
                    st.selected_dust += 1;
                }
                in_total = in_total.checked_add(n.value).ok_or_else(|| Fail::new("input-total-overflow", format!("{step}: input total overflows")))?;
            }
        }
        selected_total += in_total;
        // prior-step outputs consumed by this step
        let mut prior_total = 0u64;
        for r in s.prior_step_inputs() {
            vensure!(r.step_index() < si, "prior-step-forward-reference", "{step}: step {si} consumes {r:?}");
            vensure!(consumed_prior.insert((r.step_index(), format!("{:?}", r.output_index()))), "prior-step-output-consumed-twice", "{step}: {r:?} consumed twice");
            let ps = steps[r.step_index()];
            let v = match r.output_index() {
                StepOutputIndex::Payment(i) => ps.transaction_request().payments().get(&i).and_then(|p| p.amount()).map(u64::from),
                StepOutputIndex::Change(i) => ps.balance().proposed_change().get(i).map(|c| u64::from(c.value())),
            };
            let Some(v) = v else { vfail!("prior-step-reference-invalid", "{step}: step {si} consumes {r:?} which does not exist") };
            prior_total += v;
        }
        // (vii) recomputed from the parts
        let mut pay_total = 0u64;
        for (_, pm) in s.transaction_request().payments() {
            let Some(a) = pm.amount() else { vfail!("payment-without-amount", "{step}: step {si} has a payment without amount") };
            pay_total += u64::from(a);
            paid.push((pm.recipient_address().encode(), u64::from(a)));
        }
        let change_total: u64 = s.balance().proposed_change().iter().map(|c| u64::from(c.value())).sum();
        let fee = u64::from(s.balance().fee_required());
        fees_total += fee;
        vensure!(
            in_total + prior_total == pay_total + change_total + fee,
            "step-does-not-balance",
            "{step}: step {si}: selected inputs {in_total} + prior-step outputs {prior_total} != payments {pay_total} + change {change_total} + fee {fee}"
        );
        vensure!(in_total + prior_total > 0, "step-without-inputs", "{step}: step {si} has no inputs at all");
    }
    // every ephemeral/prior output that a later step consumes is accounted; now the request itself
    match &spec.kind {
        Kind::SendMax { everything, .. } => {
            // send-max pays everything selected minus the fees to one recipient and produces no change that is not consumed
            let external: u64 = paid.last().map(|x| x.1).unwrap_or(0);
            vensure!(
                selected_total == external + fees_total,
                "send-max-leaves-value-behind",
                "{step}: send-max selected {selected_total} but pays {external} with total fees {fees_total}"
            );
            if *everything {
                let all_live: u64 = states.iter().filter(|(_, s)| s.known && s.mined && !s.spent_mined && !s.spent_pending && !s.pending && s.pool_ok).map(|(n, _)| h.chain.notes[*n].value).filter(|v| *v > MARGINAL_FEE).sum();
                if all_live != selected_total {
                    st.everything_partial += 1;
                }
            }
        }
        _ => {
            let mut want: Vec<(String, u64)> = rs.pays.iter().map(|(a, v)| (a.to_zcash_address(&h.world.net).encode(), *v)).collect();
            let mut got = paid.clone();
            want.sort();
            got.sort();
            vensure!(got == want, "payments-differ-from-request", "{step}: the steps pay {got:?} but the request was {want:?}");
        }
    }
    let requested: u64 = rs.pays.iter().map(|x| x.1).sum();
    vensure!(
        all_unspent_mined >= requested,
        "proposal-exceeds-funds",
        "{step}: a proposal paying {requested} was returned but ALL unspent mined notes of account {account} total {all_unspent_mined}"
    );
    Ok(keys)
}

fn links_of(h: &Hist, nid: usize) -> Vec<(u32, bool)> {
    h.ledger.links.iter().filter(|(n, _, _)| *n == nid).map(|(_, b, _)| (h.chain.blocks[*b].height, h.ledger.scanned.contains(b))).collect()
}

fn witness_stabilized(h: &Hist, key: &NoteKey) -> bool {
    let p = key.0.prefix();
    let idx = key.0.output_index_col();
    h.w.conn()
        .query_row(
            &format!("SELECT rn.witness_stabilized FROM {p}_received_notes rn JOIN transactions t ON t.id_tx = rn.transaction_id WHERE t.txid = ?1 AND rn.{idx} = ?2"),
            rusqlite::params![&key.1[..], key.2],
            |r| r.get::<_, bool>(0),
        )
        .unwrap_or(false)
}

fn executable(sp: &Stored) -> bool {
    let p = &sp.proposal;
    let s = p.steps().first();
    !sp.executed
        && p.steps().len() == 1
        && !sp.keys.is_empty()
        && sp.keys.iter().all(|key| key.0 == Pool::Sapling)
        && s.payment_pools().values().all(|pt| matches!(pt, PoolType::Transparent | PoolType::Shielded(ShieldedPool::Sapling)))
        && s.balance().proposed_change().iter().all(|c| c.output_pool() == PoolType::Shielded(ShieldedPool::Sapling))
}

/// Builds and stores the transaction of stored proposal `k` if it is single-step and Sapling/transparent-only
/// (the mock Sapling provers make that cheap; an Orchard-family bundle would need a real proving key).
fn do_execute(h: &mut Hist, m: &mut Model, st: &mut Stats, k: usize, step: &str) -> Result<(), Fail> {
    use sapling::prover::mock::{MockOutputProver, MockSpendProver};
    let account = m.stored[k].account;
    let usk = h.world.accounts[account as usize].usk.clone();
    let net = h.world.net;
    let target = u32::from(m.stored[k].proposal.min_target_height());
    let db = h.w.db();
    let proposal = &m.stored[k].proposal;
    let r = vcore::catch(|| {
        create_proposed_transactions::<_, _, Infallible, _, Infallible, _>(db, &net, &MockSpendProver, &MockOutputProver, &SpendingKeys::from_unified_spending_key(usk), OvkPolicy::Sender, proposal, None)
            .map_err(|e| format!("{e:?}"))
    });
    match r {
        Err(p) => vfail!(format!("create-proposed-transactions-panic:{}", vcore::panic_site(&p)), "{step}: create_proposed_transactions panicked: {p}"),
        Ok(Err(e)) => {
            // a stale proposal (anchor checkpoint pruned, rewound chain, ...) may legitimately fail; nothing may change then
            st.execute_err += 1;
            if st.execute_errors.len() < 6 {
                st.execute_errors.insert(e.chars().take(120).collect());
            }
            if std::env::var("VERIF_C08_DEBUG").is_ok() {
                eprintln!("[c08-debug] execute failed: {}", e.chars().take(300).collect::<String>());
            }
        }
        Ok(Ok(txids)) => {
            st.executed_ok += 1;
            m.stored[k].executed = true;
            // expiry of the stored transaction: read back, and required to be a height the builder may have chosen
            let txid = txids.first();
            let expiry: Option<u32> = h
                .w
                .conn()
                .query_row("SELECT expiry_height FROM transactions WHERE txid = ?1", rusqlite::params![&txid.as_ref()[..]], |r| r.get(0))
                .map_err(|e| Fail::new("stored-tx-missing", format!("{step}: the stored transaction {txid:?} has no row: {e:?}")))?;
            let Some(expiry) = expiry else { vfail!("stored-tx-without-expiry", "{step}: the stored transaction {txid:?} has a NULL expiry height") };
            vensure!(expiry == 0 || (expiry >= target && expiry <= target + 1000), "stored-tx-expiry-out-of-range", "{step}: stored transaction expiry {expiry}, proposal target {target}");
            for key in m.stored[k].keys.clone() {
                m.pending.entry(key).or_default().push(expiry);
                // documented: locks are cleared when the inputs are recorded as spent by store_transactions_to_be_sent
                m.locks.remove(&key);
            }
        }
    }
    m.refresh(&h.chain);
    compare_lock_tables(h, m, st, step)
}

// ---------------------------------------------------------------------------------------------
// Case interpreter
// ---------------------------------------------------------------------------------------------

fn excluded(h: &Hist) -> CaseResult {
    let label = if h.tainted_stale_subtree_root && !h.tainted_stale_annotation { "excluded-known:stale-subtree-root-after-reorg" } else { "excluded-known:stale-annotation-after-reorg" };
    Ok(Obs::trivial().label(label).label_if(h.flags.truncations > 0, "rewind"))
}

/// `Ok(true)` = continue, `Ok(false)` = the history hit the known shardtree finding and must stop.
fn guard(h: &Hist, r: Result<(), Fail>) -> Result<bool, Fail> {
    match r {
        Err(f) if f.signature == SIG_TREE_CONFLICT || f.signature == SIG_STALE_SUBTREE_ROOT => Ok(false),
        Err(f) => Err(f),
        Ok(()) => Ok(h.tainted().is_none()),
    }
}

fn sync(h: &mut Hist, full: Option<u16>, new_from: u32, step: &str) -> Result<(), Fail> {
    h.ensure_tip_known(step)?;
    let tip = h.chain.tip_height();
    match full {
        Some(chunk) => h.scan_all(chunk),
        None if new_from <= tip => h.scan(new_from, tip + 1 - new_from, step),
        None => Ok(()),
    }
}

fn run_case(ctx: &Ctx, case: &C08Case) -> CaseResult {
    let mut h = Hist::new(&case.base.world, false);
    for (i, op) in case.base.ops.iter().enumerate() {
        let step = step_name(i, op);
        let r = h.apply(op, &step);
        if !guard(&h, r)? {
            return excluded(&h);
        }
    }
    if !case.seed_blocks.is_empty() {
        h.apply(&Op::AddBlocks(case.seed_blocks.clone()), "seed-blocks")?;
    }
    if case.seed_advance > 0 {
        h.apply(&Op::AddEmpty(case.seed_advance as u16), "seed-advance")?;
    }
    if h.chain.tip_height() == h.base() {
        return Ok(Obs::trivial().label("empty-chain"));
    }
    let r = sync(&mut h, case.full_scan, u32::MAX, "pre-sync");
    if !guard(&h, r)? {
        return excluded(&h);
    }
    let mut m = Model::new(&h.world);
    let mut st = Stats::default();
    for (i, x) in case.xops.iter().enumerate() {
        let step = {
            let s = format!("xop#{i} {x:?}");
            if s.len() > 300 {
                format!("{}…", s.chars().take(300).collect::<String>())
            } else {
                s
            }
        };
        match x {
            XOp::Advance { n } => {
                let from = h.chain.tip_height() + 1;
                let r = h.apply(&Op::AddEmpty(*n as u16), &step).and_then(|_| sync(&mut h, case.full_scan, from, &step));
                if !guard(&h, r)? {
                    return excluded(&h);
                }
            }
            XOp::Receive(b) => {
                let from = h.chain.tip_height() + 1;
                let r = h.apply(&Op::AddBlocks(vec![b.clone()]), &step).and_then(|_| sync(&mut h, case.full_scan, from, &step));
                if !guard(&h, r)? {
                    return excluded(&h);
                }
            }
            XOp::SpendThenReorg { sel, pool_hint, extra, n } => {
                let from = h.chain.tip_height() + 1;
                let block = BlockSpec { txs: vec![TxSpec { items: vec![ItemSpec::Spend { sel: *sel, pool_hint: *pool_hint }] }] };
                let r = h.apply(&Op::AddBlocks(vec![block]), &step).and_then(|_| sync(&mut h, case.full_scan, from, &step));
                if !guard(&h, r)? {
                    return excluded(&h);
                }
                let r = h.apply(&Op::Truncate { depth: 1 + *extra, reorg: true }, &step);
                if !guard(&h, r)? {
                    return excluded(&h);
                }
                let from = h.chain.tip_height() + 1;
                let r = h.apply(&Op::AddEmpty(*n as u16), &step).and_then(|_| sync(&mut h, case.full_scan, from, &step));
                if !guard(&h, r)? {
                    return excluded(&h);
                }
                m.refresh(&h.chain);
                compare_lock_tables(&mut h, &m, &mut st, &step)?;
            }
            XOp::Base(op) => {
                let r = h.apply(op, &step);
                if !guard(&h, r)? {
                    return excluded(&h);
                }
                if h.chain.tip_height() > h.base() {
                    h.ensure_tip_known(&step)?;
                }
                m.refresh(&h.chain);
                compare_lock_tables(&mut h, &m, &mut st, &step)?;
            }
            XOp::Propose(spec) => {
                if h.chain.tip_height() > h.base() {
                    h.ensure_tip_known(&step)?;
                }
                do_propose(ctx, &mut h, &mut m, &mut st, spec, &step)?;
            }
            XOp::Unlock { sel, owner } => {
                if m.stored.is_empty() {
                    continue;
                }
                let k = vcore::pick_index(*sel, m.stored.len());
                let o = *owner % N_OWNERS;
                let token = owner_token(o);
                st.unlocks += 1;
                unlock_proposal_inputs(h.w.db(), &m.stored[k].proposal, token).map_err(|e| Fail::new("unlock-error", format!("{step}: unlock_proposal_inputs failed: {e:?}")))?;
                let keys = m.stored[k].keys.clone();
                for key in keys {
                    if m.locks.get(&key).map_or(false, |(lo, _)| *lo == o) {
                        m.locks.remove(&key);
                        st.unlock_removed += 1;
                    }
                }
                m.refresh(&h.chain);
                compare_lock_tables(&mut h, &m, &mut st, &step)?;
            }
            XOp::Execute { sel } => {
                if m.stored.is_empty() {
                    continue;
                }
                // among the proposals that can be built with the mock Sapling provers, if any
                let eligible: Vec<usize> = (0..m.stored.len()).filter(|k| executable(&m.stored[*k])).collect();
                st.executes += 1;
                if eligible.is_empty() {
                    st.execute_ineligible += 1;
                    continue;
                }
                let k = eligible[vcore::pick_index(*sel, eligible.len())];
                do_execute(&mut h, &mut m, &mut st, k, &step)?;
            }
            XOp::ClearLocks { account } => {
                let a = (*account).min(h.world.accounts.len() as u8 - 1);
                let id = h.w.accounts[a as usize];
                st.clears += 1;
                h.w.db().clear_locked_outputs(id).map_err(|e| Fail::new("clear-locks-error", format!("{step}: clear_locked_outputs failed: {e:?}")))?;
                m.refresh(&h.chain);
                let index = &m.index;
                let chain = &h.chain;
                m.locks.retain(|k, _| index.get(k).map_or(true, |n| chain.notes[*n].who != Who::Wallet(a)));
                compare_lock_tables(&mut h, &m, &mut st, &step)?;
            }
        }
    }
    let nontrivial = st.nontrivial_attempts > 0;
    Ok(Obs::new(nontrivial)
        .label_if(st.attempts > 0, "proposal-attempted")
        .label_if(st.ok > 0, "proposal-ok")
        .label_if(st.ok_locked > 0, "proposal-ok-with-lock")
        .label_if(st.multi_step > 0, "multi-step-proposal")
        .label_if(st.canonical_anchor > 0, "bucketed-policy-proposal(zip318-canonical-crossing)")
        .label_if(st.anchor_deeper > 0, "anchor-below-target-minus-trusted")
        .label_if(st.locked_exclusion > 0, "locked-note-exclusion-situation")
        .label_if(st.under_confirmed > 0, "under-confirmed-note")
        .label_if(st.spent_candidate > 0, "spent-note-present")
        .label_if(st.orphan_candidate > 0, "orphaned-note-present")
        .label_if(st.pending_spent_candidate > 0, "note-spent-by-unexpired-orphan-tx")
        .label_if(st.wallet_pending_candidate > 0, "note-spent-by-stored-pending-tx")
        .label_if(st.executed_ok > 0, "pending-tx-stored")
        .label_if(st.selected_after_pending_expiry > 0, "selected-note-whose-pending-spender-expired")
        .label_if(st.execute_err > 0, "execute-failed")
        .label_if(st.gaps_at_attempt > 0, "attempt-with-unscanned-gaps")
        .label_if(st.max_reasons >= 2, "attempt-with>=2-distinct-ineligibility-reasons")
        .label_if(st.max_reasons >= 3, "attempt-with>=3-distinct-ineligibility-reasons")
        .label_if(st.override_selected_locked > 0, "override-policy-selected-locked-note")
        .label_if(st.err_insufficient > 0, "err-insufficient-funds")
        .label_if(st.err_inputs_locked > 0, "err-inputs-locked")
        .label_if(st.err_ineligible > 0, "err-everything-mode-ineligible")
        .label_if(st.err_scan_required > 0, "err-scan-required")
        .label_if(st.err_other > 0, "err-other")
        .label_if(st.other_errors.iter().any(|e| e.contains("PaymentPoolsMismatch")), "err-payment-pools-mismatch(tex-payment-after-non-tex)")
        .label_if(st.insufficient_despite_documented > 0, "LIVENESS-insufficient-although-documented-spendable-covers")
        .label_if(st.self_contradictions > 0, "observation:insufficient-funds-contradicts-own-available")
        .label_if(st.have_ge_need > 0, "observation:insufficient-funds-reports-available-at-least-required")
        .label_if(st.crossing_attempts > 0, "canonical-crossing-attempted")
        .label_if(st.strict_conf_latitude > 0, "selected-external-note-of-wallet-spending-tx-with-trusted-confs")
        .label_if(st.selected_dust > 0, "selected-dust-note")
        .label_if(st.everything_partial > 0, "send-max-everything-partial")
        .label_if(case.full_scan.is_some(), "synced-wallet")
        .label_if(case.base.world.nu6_3_offset.is_some(), "ironwood-world")
        .label_if(h.flags.truncations > 0, "rewind")
        .count("proposal-attempts", st.attempts)
        .count("proposals-ok", st.ok)
        .count("proposals-ok-with-lock", st.ok_locked)
        .count("selected-notes-checked", st.selected_notes)
        .count("witnesses-verified", st.witnesses_checked)
        .count("multi-step-proposals", st.multi_step)
        .count("nontrivial-attempts", st.nontrivial_attempts)
        .count("attempts-with-locked-exclusion", st.locked_exclusion)
        .count("attempts-with-under-confirmed", st.under_confirmed)
        .count("err-insufficient-funds", st.err_insufficient)
        .count("err-inputs-locked", st.err_inputs_locked)
        .count("err-ineligible", st.err_ineligible)
        .count("err-scan-required", st.err_scan_required)
        .count("err-other", st.err_other)
        .count("requests-invalid", st.request_invalid)
        .count("locks-taken", st.locks_taken)
        .count("unlock-calls", st.unlocks)
        .count("unlock-removed-locks", st.unlock_removed)
        .count("clear-calls", st.clears)
        .count("lock-tables-compared", st.lock_tables_compared)
        .count("override-selected-locked", st.override_selected_locked)
        .count("execute-attempts", st.executes)
        .count("execute-ineligible", st.execute_ineligible)
        .count("pending-txs-stored", st.executed_ok)
        .count("execute-errors", st.execute_err)
        .count("attempts-with-pending-spent-note", st.wallet_pending_candidate)
        .count("insufficient:wallet-has-unscanned-gaps", st.insuf_gaps)
        .count("insufficient:model-sees-nothing-selectable", st.insuf_nothing_selectable)
        .count("insufficient:send-max", st.insuf_sendmax)
        .count("insufficient:amount-within-fees-of-or-above-model-total", st.insuf_amount_near_total)
        .count("insufficient:not-explained-by-model", st.insuf_unexplained)
        .count("observation:insufficient-funds-despite-spendable", st.insuf_despite_spendable)
        .count("insufficient-funds-probes", st.probes)
        .count("self-contradictions", st.self_contradictions)
        .count("insufficient-with-available-at-least-required", st.have_ge_need)
        .count("canonical-crossing-attempts", st.crossing_attempts)
        .count("bucketed-policy-proposals", st.canonical_anchor))
}

/// Recorded minimal input of the observation `insufficient-funds-contradicts-own-available`: one account; an
/// EXTERNAL 1_000_000 note mined at height h, an INTERNAL (change-like) 2_000_000 note at h+1, three more blocks, all
/// scanned; DEFAULT confirmations policy (trusted 3 / untrusted 10); pay 50_000 to a Sapling address.
fn known_contradiction_case() -> C08Case {
    let recv = |scope: ScopeSel, v: u64| BlockSpec { txs: vec![TxSpec { items: vec![ItemSpec::Recv { pool: Pool::Sapling, who: Who::Wallet(0), scope, value: v }] }] };
    C08Case {
        base: Case {
            world: WorldSpec { seed: [9; 32], n_accounts: 1, n_foreign: 0, nu6_3_offset: None, retention_interval: None, base: None },
            long: false,
            ops: vec![Op::AddBlocks(vec![recv(ScopeSel::External, 1_000_000), recv(ScopeSel::Internal, 2_000_000)]), Op::AddEmpty(3)],
            final_chunk: 10,
        },
        seed_blocks: vec![],
        seed_advance: 0,
        full_scan: Some(10),
        xops: vec![XOp::Propose(ProposeSpec {
            kind: Kind::Transfer { pays: vec![Pay { addr: AddrKind::Sapling, rk: 0, amount: Amount::Tiny(50_000) }], change: ChangeSel::Single, fallback_orchard: false },
            account: 0,
            trusted: 3,
            untrusted_extra: 7,
            lock_pol: LockPol::Exclude,
            pools_mask: 7,
            lock: None,
        })],
    }
}

/// Recorded minimal input of the observation `insufficient-funds-reports-available-at-least-required`: one account
/// holding an Orchard note of 1_000_000 and a Sapling note of 30_000 (both deep enough); pay 990_000 to a P2PKH address.
/// The Orchard note alone covers payment + the fee estimated without inputs (1_000_000) but not the fee with it
/// (1_005_000); both pools together (1_030_000) cover payment + fee (1_015_000).
fn known_have_ge_need_case() -> C08Case {
    let recv = |pool: Pool, v: u64| BlockSpec { txs: vec![TxSpec { items: vec![ItemSpec::Recv { pool, who: Who::Wallet(0), scope: ScopeSel::External, value: v }] }] };
    C08Case {
        base: Case {
            world: WorldSpec { seed: [11; 32], n_accounts: 1, n_foreign: 0, nu6_3_offset: None, retention_interval: None, base: None },
            long: false,
            ops: vec![Op::AddBlocks(vec![recv(Pool::Orchard, 1_000_000), recv(Pool::Sapling, 30_000)]), Op::AddEmpty(5)],
            final_chunk: 10,
        },
        seed_blocks: vec![],
        seed_advance: 0,
        full_scan: Some(10),
        xops: vec![XOp::Propose(ProposeSpec {
            kind: Kind::Transfer { pays: vec![Pay { addr: AddrKind::P2pkh, rk: 0, amount: Amount::Tiny(990_000) }], change: ChangeSel::Single, fallback_orchard: false },
            account: 0,
            trusted: 1,
            untrusted_extra: 0,
            lock_pol: LockPol::Exclude,
            pools_mask: 7,
            lock: None,
        })],
    }
}

fn main() {
    chainsim::init_sqlite();
    let ctx = Ctx::from_args("C08", "exploration");
    ctx.set_rule(
        "proptest cases: a chainsim wallet history (world with 1-3 accounts, optional Ironwood activation and retention interval; blocks with \
         receipts/spends in 3 pools and all key scopes, scans in any order, tip updates, rewinds with/without reorg) + 0-3 busy blocks + 0-15 \
         empty blocks, then (85 %) a full scan or (15 %) the gaps are left; then 6-16 C08 ops: Propose (propose_transfer with single/multi-output \
         change strategy and 1-3 payments to Sapling / unified (full, Orchard-only, Sapling-only, Sapling+P2PKH) / P2PKH / P2SH / TEX / own-account \
         addresses; propose_standard_transfer_to_address; propose_send_max_transfer in both MaxSpendMode values; a canonical ZIP 318 denomination to an \
         Orchard receiver; a Sapling-pool-only transfer; amounts tiny / a percentage / total-k for fee-sized k / total+k / far above, relative to the value the model considers \
         selectable; ConfirmationsPolicy trusted 1-10, untrusted = trusted+0..10; SpendPolicy pools subset; LockedInputPolicy Exclude / \
         PreferUnlocked(owners) / PreferLocked(owners) over 3 owners; lock_inputs Some(owner, 0-39 blocks) in 60 %; the account is picked by rank \
         of selectable value), Advance(1-12 or 30-45 empty blocks, scanned), Receive(a generated block, scanned), rewind / gap scan, SpendThenReorg (a block spending a wallet note is scanned and then reorganised away), unlock_proposal_inputs \
         of an earlier proposal under any owner, clear_locked_outputs, Execute (create_proposed_transactions with the mock Sapling provers for an earlier \
         single-step Sapling-only proposal: the transaction is STORED via store_transactions_to_be_sent and never mined, so its inputs are spent by a pending \
         transaction until its expiry height). Every returned proposal is checked note by note against the model ledger and \
         the model lock table; the wallet's get_locked_outputs is compared with the model lock table after every op. Non-trivial = history with a \
         proposal attempt against an account holding >= 2 unspent mined notes while >= 1 note of the account is ineligible (spent, spent by an \
         unexpired orphaned tx, spent by a stored pending tx, orphaned, under-confirmed, locked by a non-admitted owner) or the wallet has unscanned gaps; distinct = hash of the case.",
    );
    ctx.assume("model ledger = chainsim::Ledger (validated against the wallet's balances and note rows by C01); un-mined tx with unknown expiry counts as unexpired while first-observed height + 40 >= target (documented tx_unexpired_condition)");
    ctx.assume("confirmations: a note needs mined_height + required <= target (= wallet chain tip + 1); required = trusted for internal-scope notes, untrusted otherwise (no transaction is ever marked trusted by the user). Latitude: an external-scope note of a transaction that also spends a wallet note is only required to have the trusted depth (counted separately)");
    ctx.assume("locks: an output is locked while lock_expiry_height >= target height; lock_inputs sets expiry = target + for_blocks for every selected input; unlock is owner-scoped; clear is per account (data_api::locking module docs)");
    ctx.assume("pending: a transaction stored by store_transactions_to_be_sent spends its inputs while its expiry height >= target height (expiry 0 = never expires); storing it releases the locks on its inputs (propose_transfer docs); the expiry is read back from the wallet's transactions table");
    ctx.assume("liveness is NOT asserted; it is counted on overwhelming evidence (all blocks scanned, no dust candidates, notes with untrusted depth, never locked, no spender ever seen cover `required` + 100000 + 5000*(notes+8)); C08 states safety only; insufficient-funds answers that the model or the wallet's own other answers contradict are COUNTED as observation:* labels and never reported");
    ctx.assume("a history stops (counted as excluded-known) as soon as a reorganising rewind cuts an annotated frontier subtree (known shardtree finding listed under C06)");
    let tier = ctx.tier;
    // Two recorded inputs on which input selection reports InsufficientFunds although the funds suffice (liveness
    // observations outside C08's statement, DESIGN.md 9.4). Every SAFETY oracle runs on them; the outcome (proposal or
    // the observation label) is recorded in the evidence, not asserted.
    ctx.run_enum(
        "observed-input-trusted-note-hides-change",
        1,
        false,
        |_| {
            let r = run_case(&ctx, &known_contradiction_case())?;
            Ok(r)
        },
        |_| format!("{:?}", known_contradiction_case()),
    );
    ctx.run_enum(
        "observed-input-single-pool-trim",
        1,
        false,
        |_| {
            let r = run_case(&ctx, &known_have_ge_need_case())?;
            Ok(r)
        },
        |_| format!("{:?}", known_have_ge_need_case()),
    );
    ctx.run_prop_with("proposals", || arb_c08_case(12, 6), tier.pick(2000, 24_000), 60, |c| run_case(&ctx, c));
    ctx.require_label_fraction("proposals", "proposal-ok", 0.40);
    ctx.require_label_fraction("proposals", "locked-note-exclusion-situation", 0.10);
    ctx.require_label_fraction("proposals", "under-confirmed-note", 0.20);
    ctx.finish();
}

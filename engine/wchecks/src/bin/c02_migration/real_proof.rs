//! A wallet database holding a committed migration whose first preparation transaction has REALLY been proved
//! (one 16-action Orchard Halo2 proof), so that `PoolMigrations::take_transaction_for_broadcast` — the one store
//! write that extracts (and re-verifies) the transaction and records it in the wallet's own transaction tables
//! inside the store's `replace_migration_with` transaction — can be put under fault enumeration.
//!
//! The steps are those of the repository's own integration test `zcash_client_sqlite/tests/
//! pool_migration_prove_chain_sim.rs` (`broadcast_persists_a_preparations_zip318_classification`): an NU6.3 wallet
//! funded with the single-minimum-denomination scenario of `zcash_pool_migration::testing::MIGRATION_SCENARIOS`,
//! `plan_migration` + `commit_preparation_with_funding` over the wallet adapter, `advance_migration` over the SQLite
//! store until it names a proof, `prove_preparation` with the wallet prover, `store_proved_transaction`.

use std::convert::Infallible;
use std::path::PathBuf;
use std::sync::OnceLock;

use rand_chacha::ChaCha8Rng;
use rand_core::SeedableRng;
use zcash_client_backend::data_api::testing::{orchard::OrchardPoolTester, pool::ShieldedPoolTester, AddressType, TestBuilder};
use zcash_client_backend::data_api::{Account, WalletRead};
use zcash_client_sqlite::pool_migration::orchard_ironwood::PoolMigrations;
use zcash_client_sqlite::testing::db::TestDbFactory;
use zcash_client_sqlite::testing::{highest_rooted_orchard_checkpoint, BlockCache};
use zcash_client_sqlite::AccountUuid;
use zcash_pool_migration::engine::{
    self, MigrationState, MigrationTransaction, MigrationTransferId, MigrationTxKind, MigrationTxState, PoolMigrationRead, PoolMigrationWrite, ProveOutcome, ProvedTransaction,
};
use zcash_pool_migration::satisfiability::{self, AdvanceConfig, DuenessTargets, ReorgSettleDepth, ReplanThreshold, StepSatisfiability};
use zcash_pool_migration::state::AdvanceStep;
use zcash_pool_migration::wallet::{WalletMigration, WalletMigrationProver};
use zcash_primitives::block::BlockHash;
use zcash_protocol::consensus::BlockHeight;
use zcash_protocol::local_consensus::LocalNetwork;
use zcash_protocol::value::Zatoshis;
use zcash_protocol::TxId;

const ACTIVATION: u32 = 100_000;
const SCENARIO: &str = "Gwen, 0.0152 ZEC (a single minimum-denomination note)";

pub struct Fixture {
    /// a private copy of the wallet database file (removed by `cleanup`)
    pub path: PathBuf,
    pub net: LocalNetwork,
    pub account: AccountUuid,
    /// the migration as the store holds it: every transaction signed, the first preparation proved
    pub state: MigrationState,
    pub proved: MigrationTransferId,
    pub build_seconds: f64,
}

/// The in-memory store the plan-and-commit path is handed (it never consults the oracle); as in the repository's test.
#[derive(Default)]
struct PlanStore {
    state: Option<MigrationState>,
}

impl PoolMigrationRead for PlanStore {
    type Error = Infallible;
    fn get_migration(&self) -> Result<Option<MigrationState>, Infallible> {
        Ok(self.state.clone())
    }
    fn check_step_satisfiability(&self, _tx: &MigrationTransaction, _settle: ReorgSettleDepth) -> Result<StepSatisfiability, Infallible> {
        Ok(StepSatisfiability::Satisfiable { as_of_height: BlockHeight::from_u32(0) })
    }
    fn mined_height(&self, _txid: TxId) -> Result<Option<BlockHeight>, Infallible> {
        Ok(None)
    }
}

impl PoolMigrationWrite for PlanStore {
    fn replace_migration(&mut self, state: &MigrationState) -> Result<(), Infallible> {
        self.state = Some(state.clone());
        Ok(())
    }
    fn update_transaction(&mut self, _id: MigrationTransferId, _state: MigrationTxState) -> Result<(), Infallible> {
        Ok(())
    }
    fn store_proved_transaction(&mut self, state: &mut MigrationState, proven: ProvedTransaction) -> Result<(), Infallible> {
        proven.apply(state);
        self.replace_migration(state)
    }
}

fn build() -> Result<Fixture, String> {
    let t0 = std::time::Instant::now();
    let h = BlockHeight::from_u32(ACTIVATION);
    let net = LocalNetwork { nu6: Some(h), nu6_1: Some(h), nu6_2: Some(h), nu6_3: Some(h), ..TestBuilder::<(), ()>::DEFAULT_NETWORK };
    let scenario = zcash_pool_migration::testing::MIGRATION_SCENARIOS.iter().find(|s| s.label == SCENARIO).ok_or("the single-note scenario is gone")?;

    let mut st = TestBuilder::new()
        .with_network(net)
        .with_data_store_factory(TestDbFactory::file_backed())
        .with_block_cache(BlockCache::new())
        .with_account_from_sapling_activation(BlockHash([0; 32]))
        .build();
    let account = st.test_account().cloned().ok_or("no test account")?;
    let account_id = account.id();
    let usk = account.usk().clone();
    let fvk = OrchardPoolTester::test_account_fvk(&st);
    for &note in scenario.source_notes {
        let (hh, _, _) = st.generate_next_block(&fvk, AddressType::DefaultExternal, Zatoshis::const_from_u64(note));
        st.scan_cached_blocks(hh, 1);
    }
    for _ in 0..5 {
        let (hh, _) = st.generate_empty_block();
        st.scan_cached_blocks(hh, 1);
    }

    // plan and commit (every transaction signed, anchors and witnesses deferred), persist into the SQLite store
    let tip = st.wallet().chain_height().map_err(|e| format!("{e:?}"))?.ok_or("no chain tip")?;
    let mut rng = ChaCha8Rng::seed_from_u64(0);
    let mut state = {
        let mut adapter = WalletMigration::new(st.wallet(), account_id, usk.to_unified_full_viewing_key(), PlanStore::default());
        let plan = engine::plan_migration(&net, &adapter, &mut rng).map_err(|e| format!("plan_migration: {e:?}"))?;
        let (state, _) = engine::commit_preparation_with_funding(&net, tip, &mut adapter, usk.orchard(), &plan, &mut rng, ReplanThreshold::DEFAULT).map_err(|e| format!("commit: {e:?}"))?;
        state
    };
    type St = zcash_client_backend::data_api::testing::TestState<BlockCache, zcash_client_sqlite::testing::db::TestDb, LocalNetwork>;
    type Store<'a> = PoolMigrations<&'a mut rusqlite::Connection, LocalNetwork, zcash_client_sqlite::util::testing::FixedClock>;
    fn open<'a>(st: &'a mut St, net: LocalNetwork, account: AccountUuid) -> Result<Store<'a>, String> {
        PoolMigrations::for_account(net, super::clock(), st.wallet_mut().conn_mut(), account).map_err(|e| format!("for_account: {e:?}"))
    }
    open(&mut st, net, account_id)?.replace_migration(&state).map_err(|e| format!("persist: {e:?}"))?;

    // drive until the first proof is named
    let cfg = AdvanceConfig::new(ReorgSettleDepth::new(10));
    let mut waited = 0;
    let (id, kind) = loop {
        let target = st.wallet().chain_height().map_err(|e| format!("{e:?}"))?.ok_or("no chain tip")? + 1;
        let mut drive_rng = ChaCha8Rng::seed_from_u64(0x318);
        let adv = satisfiability::advance_migration(&mut open(&mut st, net, account_id)?, &mut state, DuenessTargets::at(target), &cfg, &mut drive_rng).map_err(|e| format!("advance_migration: {e:?}"))?;
        match adv.step() {
            AdvanceStep::Prove { transactions } => break (transactions[0].id(), transactions[0].kind()),
            AdvanceStep::Waiting => {
                waited += 1;
                if waited > 5_000 {
                    return Err("no preparation came due within 5000 blocks".into());
                }
                let (hh, _) = st.generate_empty_block();
                st.scan_cached_blocks(hh, 1);
            }
            other => return Err(format!("unexpected step before the first proof: {other:?}")),
        }
    };
    if !matches!(kind, MigrationTxKind::Preparation { .. }) {
        return Err(format!("the first proof named is not a preparation: {kind:?}"));
    }

    // prove it against the highest rooted checkpoint at the tip, and persist
    let tip = st.wallet().chain_height().map_err(|e| format!("{e:?}"))?.ok_or("no chain tip")?;
    let anchor = highest_rooted_orchard_checkpoint(st.wallet_mut(), tip).ok_or("no rooted Orchard checkpoint")?;
    let outcome = {
        let mut prover = WalletMigrationProver::new(st.wallet_mut(), account_id, fvk.clone());
        engine::prove_preparation(&mut prover, &mut state, id, anchor).map_err(|e| format!("prove_preparation: {e:?}"))?
    };
    match outcome {
        ProveOutcome::Proved(proven) => open(&mut st, net, account_id)?.store_proved_transaction(&mut state, proven).map_err(|e| format!("store_proved_transaction: {e:?}"))?,
        ProveOutcome::NotYetProvable => return Err("the preparation is not yet provable".into()),
        ProveOutcome::MarkedUnsatisfiable { .. } => return Err("the preparation was marked unsatisfiable".into()),
    }
    let stored = open(&mut st, net, account_id)?.get_migration().map_err(|e| format!("{e:?}"))?.ok_or("the store holds no pending migration")?;
    if stored != state {
        return Err("the stored migration differs from the driven state".into());
    }

    // a private copy of the database file (the wallet uses a rollback journal: the file is complete after a commit)
    let src = st.wallet().conn().path().ok_or("the fixture wallet is not file-backed")?.to_string();
    let path = std::env::temp_dir().join(format!("c02-real-proof-{}-{:x}.sqlite", std::process::id(), t0.elapsed().as_nanos() as u64));
    std::fs::copy(&src, &path).map_err(|e| format!("copying {src}: {e}"))?;
    Ok(Fixture { path, net, account: account_id, state, proved: id, build_seconds: t0.elapsed().as_secs_f64() })
}

static FIXTURE: OnceLock<Result<Fixture, String>> = OnceLock::new();

/// The fixture, built once per process (the first caller builds it, the others wait).
pub fn fixture() -> &'static Result<Fixture, String> {
    FIXTURE.get_or_init(|| vcore::catch(build).unwrap_or_else(|p| Err(format!("panic while building the fixture: {p}"))))
}

pub fn cleanup() {
    if let Some(Ok(f)) = FIXTURE.get() {
        for ext in ["", "-journal", "-wal", "-shm"] {
            let _ = std::fs::remove_file(format!("{}{}", f.path.display(), ext));
        }
    }
}

/// `take_transaction_for_broadcast(state, proved)` over `conn`.
pub fn take(conn: &mut rusqlite::Connection, f: &Fixture) -> Result<String, String> {
    let mut store = PoolMigrations::for_account(f.net, super::clock(), conn, f.account).map_err(|e| format!("{e:?}"))?;
    store.take_transaction_for_broadcast(&f.state, f.proved).map(|tx| format!("took {}", tx.txid())).map_err(|e| format!("{e:?}"))
}

//! C02, pool-migration part: generated `MigrationState` values (model adapted from the C18 check, heights taken
//! from the wallet under test), the operations on the SQLite pool-migration store through its public API
//! (`pool_migration::orchard_ironwood::PoolMigrations`), and the migration-oracle reads used by the
//! `reader-snapshot-migration` sub-check.

pub mod real_proof;

use std::num::NonZeroU32;
use std::sync::atomic::{AtomicBool, Ordering};

use proptest::collection::vec as pvec;
use proptest::prelude::*;
use proptest::sample::select;
use rand_core::SeedableRng;
use rusqlite::Connection;
use vcore::pick_index;
use zcash_client_sqlite::pool_migration::orchard_ironwood::PoolMigrations;
use zcash_client_sqlite::{util::testing::FixedClock, AccountUuid};
use zcash_pool_migration::denomination::DenominationPlan;
use zcash_pool_migration::engine::{
    MigrationLockOwner, MigrationState, MigrationStatus, MigrationTransaction, MigrationTransferId, MigrationTxKind, MigrationTxState,
    PoolMigrationRead, PoolMigrationWrite, ProvedTransaction,
};
use zcash_pool_migration::preparation::{PrepInput, PrepOutput, PrepTransaction, PreparationPlan};
use zcash_pool_migration::satisfiability::{advance_migration, AdvanceConfig, DuenessTargets, ReorgSettleDepth, ReplanThreshold, UnsatisfiableKind};
use zcash_pool_migration::scheduling::AnchorBucketInterval;
use zcash_protocol::consensus::BlockHeight;
use zcash_protocol::local_consensus::LocalNetwork;
use zcash_protocol::value::Zatoshis;
use zcash_protocol::TxId;

/// The eight tables of the Orchard -> Ironwood pool-migration store (names from `orchard_ironwood.rs::TABLES`).
pub const MIGRATION_TABLES: [&str; 8] = [
    "orchard_ironwood_migrations",
    "orchard_ironwood_migration_crossing_values",
    "orchard_ironwood_migration_prep_inputs",
    "orchard_ironwood_migration_prep_outputs",
    "orchard_ironwood_migration_prep_direct_funding",
    "orchard_ironwood_migration_transactions",
    "orchard_ironwood_migration_transaction_deps",
    "orchard_ironwood_migration_spend_nullifiers",
];

/// ZIP 318 canonical expiry, restated from the rustdoc of `zip318::expiry_height`.
const EXPIRY_MODULUS: u64 = 34_560;
const EXPIRY_WINDOW: u64 = 69_120;

fn bh(h: u32) -> BlockHeight {
    BlockHeight::from_u32(h)
}
fn tid(i: u32) -> MigrationTransferId {
    MigrationTransferId::new(i)
}

pub fn clock() -> FixedClock {
    FixedClock::new(std::time::SystemTime::UNIX_EPOCH + std::time::Duration::from_secs(1_740_441_600))
}

// ------------------------------------------------------------------------------------------------
// What the generated migrations are built against: facts about the wallet state under test
// ------------------------------------------------------------------------------------------------

#[derive(Clone, Debug)]
pub struct MigEnv {
    pub net: LocalNetwork,
    /// the chain tip the wallet has been told about (includes the unscanned extra blocks)
    pub tip: u32,
    /// the wallet's fully-scanned height (`WalletRead::block_fully_scanned`), or the base height when there is none
    pub scanned: u32,
    pub accounts: Vec<AccountUuid>,
    /// account indices holding a persisted migration, in persistence order
    pub mig_accounts: Vec<usize>,
    /// per account index: nullifiers of every Orchard note of that account on the current branch (scanned or not)
    pub orchard_nfs: Vec<Vec<[u8; 32]>>,
    /// txids of every transaction on the current branch that pays a wallet account
    pub txids: Vec<[u8; 32]>,
    /// (height, true Orchard tree root at the end of that block) for base..=tip
    pub orchard_roots: Vec<(u32, [u8; 32])>,
}

impl MigEnv {
    pub fn account_index(&self, sel: u8) -> usize {
        if sel < 208 && !self.mig_accounts.is_empty() {
            self.mig_accounts[sel as usize % self.mig_accounts.len()]
        } else {
            sel as usize % self.accounts.len()
        }
    }
    fn root_at(&self, h: u32) -> Option<[u8; 32]> {
        self.orchard_roots.iter().find(|(x, _)| *x == h).map(|(_, r)| *r)
    }
}

// ------------------------------------------------------------------------------------------------
// Generated migrations
// ------------------------------------------------------------------------------------------------

#[derive(Clone, Copy, Debug, PartialEq, Eq)]
pub enum StSel {
    Awaiting,
    Signed,
    Proved,
    Broadcast,
    Mined,
}

#[derive(Clone, Copy, Debug)]
pub enum ExpSel {
    Zero,
    Canonical,
    /// tip + offset (negative: already past)
    Rel(i16),
}

#[derive(Clone, Copy, Debug)]
pub enum MarkSel {
    Spent,
    InputsInv,
    AnchorInv,
    Inherited,
}

#[derive(Clone, Copy, Debug)]
pub enum AnchorSel {
    /// three opaque bytes: not a PCZT (what the C18 model stores)
    Opaque,
    /// a parseable PCZT whose Orchard anchor is the true root at the transaction's anchor boundary
    AtBoundary,
    /// a parseable PCZT whose Orchard anchor is the true root at another height
    Elsewhere(u32),
    /// a parseable PCZT whose Orchard anchor is the root of no block
    Dead,
}

#[derive(Clone, Copy, Debug, PartialEq, Eq)]
pub enum Stage {
    /// committed, nothing proved or broadcast
    Planned,
    /// some transactions proved / broadcast, none mined
    PartlyBroadcast,
    /// some transactions mined
    PartlyMined,
    Complete,
    Failed,
    Superseded,
    Cancelled,
}

impl Stage {
    pub fn is_terminal(self) -> bool {
        matches!(self, Stage::Complete | Stage::Failed | Stage::Superseded | Stage::Cancelled)
    }
}

#[derive(Clone, Debug)]
pub struct TxGen {
    pub st: StSel,
    pub sched_off: i16,
    pub exp: ExpSel,
    /// (kind, blocks below the fully-scanned height the observation rests on)
    pub mark: Option<(MarkSel, u8)>,
    /// observed tip of a standing broadcast-failure report, relative to the tip
    pub report: Option<i8>,
    pub mined_back: u8,
    pub nfs: u8,
    /// use nullifiers of the account's real Orchard notes (selected by `nf_sel`) instead of unknown ones
    pub real_nf: bool,
    pub nf_sel: u32,
    /// use the txid of a real wallet transaction
    pub txid_sel: Option<u32>,
    pub lock: bool,
    pub deps: u32,
    /// transfer: how far (in steps of min(interval, 3) blocks) the anchor boundary lies below the fully-scanned height
    pub age: u8,
    pub anchor: AnchorSel,
    pub value_sel: u8,
}

#[derive(Clone, Debug)]
pub struct MigSpec {
    pub acct: u8,
    pub stage: Stage,
    pub planning: bool,
    pub consistent: bool,
    pub interval: u32,
    pub threshold: u8,
    pub layers: Vec<Vec<TxGen>>,
    pub transfers: Vec<TxGen>,
    pub salt: u8,
}

fn arb_st() -> impl Strategy<Value = StSel> {
    prop_oneof![
        1 => Just(StSel::Awaiting),
        3 => Just(StSel::Signed),
        4 => Just(StSel::Proved),
        4 => Just(StSel::Broadcast),
        4 => Just(StSel::Mined),
    ]
}

fn arb_txgen() -> impl Strategy<Value = TxGen> {
    (
        (
            arb_st(),
            prop_oneof![3 => -12i16..=0, 3 => 1i16..=12, 1 => 13i16..=400],
            prop_oneof![3 => Just(ExpSel::Zero), 3 => Just(ExpSel::Canonical), 2 => (-10i16..=-1).prop_map(ExpSel::Rel), 3 => (0i16..=40).prop_map(ExpSel::Rel)],
            prop_oneof![
                5 => Just(None),
                2 => (prop_oneof![Just(MarkSel::Spent), Just(MarkSel::InputsInv), Just(MarkSel::AnchorInv), Just(MarkSel::Inherited)], 0u8..10).prop_map(Some),
            ],
            prop_oneof![6 => Just(None), 1 => (-4i8..=8).prop_map(Some)],
            0u8..10,
        ),
        (
            1u8..=3,
            prop::bool::weighted(0.7),
            any::<u32>(),
            prop_oneof![1 => Just(None), 1 => any::<u32>().prop_map(Some)],
            prop::bool::weighted(0.4),
            any::<u32>(),
            0u8..=4,
            prop_oneof![2 => Just(AnchorSel::Opaque), 3 => Just(AnchorSel::AtBoundary), 2 => any::<u32>().prop_map(AnchorSel::Elsewhere), 4 => Just(AnchorSel::Dead)],
            0u8..6,
        ),
    )
        .prop_map(|((st, sched_off, exp, mark, report, mined_back), (nfs, real_nf, nf_sel, txid_sel, lock, deps, age, anchor, value_sel))| TxGen {
            st,
            sched_off,
            exp,
            mark,
            report,
            mined_back,
            nfs,
            real_nf,
            nf_sel,
            txid_sel,
            lock,
            deps,
            age,
            anchor,
            value_sel,
        })
}

pub fn arb_stage() -> impl Strategy<Value = Stage> {
    prop_oneof![
        3 => Just(Stage::Planned),
        4 => Just(Stage::PartlyBroadcast),
        5 => Just(Stage::PartlyMined),
        1 => Just(Stage::Complete),
        1 => Just(Stage::Failed),
        1 => Just(Stage::Superseded),
        1 => Just(Stage::Cancelled),
    ]
}

pub fn arb_mig_spec() -> impl Strategy<Value = MigSpec> {
    (
        // (the selector indexes the accounts ordered by their Orchard holdings: mostly the richest one)
        (prop_oneof![4 => Just(0u8), 1 => Just(1u8), 1 => Just(2u8)], arb_stage(), prop::bool::weighted(0.15), prop::bool::weighted(0.7)),
        prop_oneof![3 => Just(144u32), 3 => select(vec![1u32, 2, 3, 5, 12, 36]), 1 => 1u32..=300],
        select(vec![0u8, 10, 20, 20, 50, 100]),
        pvec(pvec(arb_txgen(), 1..=2), 0..=2),
        pvec(arb_txgen(), 1..=4),
        any::<u8>(),
    )
        .prop_map(|((acct, stage, planning, consistent), interval, threshold, layers, transfers, salt)| MigSpec { acct, stage, planning, consistent, interval, threshold, layers, transfers, salt })
}

fn canonical_expiry(h: u32) -> u32 {
    let h = h as u64;
    (h - h % EXPIRY_MODULUS + EXPIRY_WINDOW).min(u32::MAX as u64) as u32
}

fn clamp(x: i64) -> u32 {
    x.clamp(0, u32::MAX as i64) as u32
}

fn hash32(tag: &[u8], i: u32) -> [u8; 32] {
    let h = blake2b_simd::Params::new().hash_length(32).hash(&[tag, &i.to_le_bytes()[..]].concat());
    let mut out = [0u8; 32];
    out.copy_from_slice(h.as_bytes());
    out
}

pub fn lock_token(salt: u8, id: u32) -> [u8; 32] {
    hash32(&[salt, 0x10, 0xC2], id)
}

/// A serialized PCZT (v5, no inputs or outputs) whose Orchard bundle carries `anchor`: everything the SQLite
/// satisfiability oracle reads from a stored PCZT (`installed_source_anchor`).
pub fn pczt_with_anchor(anchor: [u8; 32]) -> Vec<u8> {
    let branch: u32 = zcash_protocol::consensus::BranchId::Nu6.into();
    pczt::roles::creator::Creator::new(branch, 0, 1, Some([0u8; 32]), Some(anchor)).expect("creator").build().expect("build").serialize().expect("serialize")
}

const VALUES: [u64; 6] = [10_000, 100_000, 1_000_000, 2_000_000, 50_000_000, 1_000_000_000];

/// Builds the `MigrationState` a spec denotes for account index `acct` of the wallet described by `env`, and the
/// lock-owner tokens it names (so that the caller can reserve notes under them).
pub fn build_migration(spec: &MigSpec, env: &MigEnv, acct: usize) -> (MigrationState, Vec<[u8; 32]>) {
    let (tip, scanned) = (env.tip, env.scanned);
    let interval = spec.interval.max(1);
    let step = interval.min(3);

    let mut prep_ids: Vec<Vec<u32>> = vec![];
    let mut next = 0u32;
    for l in &spec.layers {
        prep_ids.push((0..l.len() as u32).map(|k| next + k).collect());
        next += l.len() as u32;
    }
    let all_preps: Vec<u32> = prep_ids.iter().flatten().copied().collect();

    struct Row {
        id: u32,
        kind: MigrationTxKind,
        deps: Vec<u32>,
        g: TxGen,
    }
    let mut rows: Vec<Row> = vec![];
    for (li, l) in spec.layers.iter().enumerate() {
        let earlier: Vec<u32> = prep_ids[..li].iter().flatten().copied().collect();
        for (k, g) in l.iter().enumerate() {
            let deps: Vec<u32> = earlier.iter().enumerate().filter(|(b, _)| (g.deps >> (b % 32)) & 1 == 1).map(|(_, id)| *id).collect();
            rows.push(Row { id: prep_ids[li][k], kind: MigrationTxKind::Preparation { layer: li, index: k }, deps, g: g.clone() });
        }
    }
    for (c, g) in spec.transfers.iter().enumerate() {
        let deps = if all_preps.is_empty() || g.deps % 4 == 0 { vec![] } else { vec![all_preps[pick_index(g.deps, all_preps.len())]] };
        rows.push(Row { id: next + c as u32, kind: MigrationTxKind::Transfer { crossing: c }, deps, g: g.clone() });
    }

    let nfs_real = &env.orchard_nfs[acct];
    let mut locks = vec![];
    let mut txs: Vec<MigrationTransaction> = vec![];
    let mut decided: Vec<(StSel, u32)> = vec![];
    for r in &rows {
        let g = &r.g;
        let sched = clamp(tip as i64 + g.sched_off as i64);
        let expiry = match g.exp {
            ExpSel::Zero => 0,
            ExpSel::Canonical => canonical_expiry(sched),
            ExpSel::Rel(o) => clamp(tip as i64 + o as i64).max(1),
        };
        let boundary = match r.kind {
            MigrationTxKind::Transfer { .. } => Some(scanned.saturating_sub(g.age as u32 * step)),
            MigrationTxKind::Preparation { .. } => None,
        };
        // the stage decides which lifecycle states occur
        let mut st = match spec.stage {
            Stage::Planned => {
                if g.st == StSel::Awaiting {
                    StSel::Awaiting
                } else {
                    StSel::Signed
                }
            }
            Stage::PartlyBroadcast => {
                if g.st == StSel::Mined {
                    StSel::Broadcast
                } else {
                    g.st
                }
            }
            Stage::Complete => StSel::Mined,
            _ => g.st,
        };
        let mut mined_h = scanned.saturating_sub(g.mined_back as u32);
        if spec.consistent && spec.stage != Stage::Complete {
            let deps_mined = r.deps.iter().all(|d| decided[*d as usize].0 == StSel::Mined);
            if !deps_mined && matches!(st, StSel::Proved | StSel::Broadcast | StSel::Mined) {
                st = StSel::Signed;
            }
            if st == StSel::Mined {
                let floor = r.deps.iter().map(|d| decided[*d as usize].1 as u64 + 1).max().unwrap_or(0);
                if floor > scanned as u64 {
                    st = StSel::Broadcast;
                } else {
                    mined_h = mined_h.max(floor as u32);
                }
            }
        }
        decided.push((st, mined_h));
        let txid_bytes = match g.txid_sel {
            Some(sel) if !env.txids.is_empty() => env.txids[pick_index(sel, env.txids.len())],
            _ => hash32(&[spec.salt, 0xC1, 0x02], r.id),
        };
        let txid = TxId::from_bytes(txid_bytes);
        let state = match st {
            StSel::Awaiting => MigrationTxState::AwaitingSignature,
            StSel::Signed => MigrationTxState::Signed,
            StSel::Proved => MigrationTxState::Proved,
            StSel::Broadcast => MigrationTxState::Broadcast { txid },
            StSel::Mined => MigrationTxState::Mined { txid, height: bh(mined_h) },
        };
        let mined = st == StSel::Mined;
        let mark = if mined {
            None
        } else {
            g.mark.map(|(k, back)| {
                let kind = match k {
                    MarkSel::Spent => UnsatisfiableKind::InputsSpent,
                    MarkSel::InputsInv => UnsatisfiableKind::InputsInvalidated,
                    MarkSel::AnchorInv => UnsatisfiableKind::AnchorInvalidated,
                    MarkSel::Inherited => UnsatisfiableKind::Inherited,
                };
                (bh(scanned.saturating_sub(back as u32)), kind)
            })
        };
        // a report is recorded only on a Proved transaction (a consumer may then still record a broadcast)
        let report = if matches!(st, StSel::Proved | StSel::Broadcast) { g.report.map(|o| bh(clamp(tip as i64 + o as i64))) } else { None };
        let lock = if g.lock && matches!(st, StSel::Proved | StSel::Broadcast | StSel::Mined) {
            let t = lock_token(spec.salt, r.id);
            locks.push(t);
            Some(MigrationLockOwner::from_bytes(t))
        } else {
            None
        };
        let nfs: Vec<[u8; 32]> = (0..g.nfs.max(1))
            .map(|k| {
                if g.real_nf && !nfs_real.is_empty() {
                    nfs_real[(pick_index(g.nf_sel, nfs_real.len()) + k as usize) % nfs_real.len()]
                } else {
                    hash32(&[spec.salt, 0x4e, k], r.id)
                }
            })
            .collect();
        let dead = hash32(&[spec.salt, 0xDE, 0xAD], r.id);
        let pczt = match g.anchor {
            AnchorSel::Opaque => vec![0xB0 | (st as u8), r.id as u8, spec.salt],
            AnchorSel::AtBoundary => pczt_with_anchor(boundary.and_then(|b| env.root_at(b)).unwrap_or(dead)),
            AnchorSel::Elsewhere(sel) => pczt_with_anchor(if env.orchard_roots.is_empty() { dead } else { env.orchard_roots[pick_index(sel, env.orchard_roots.len())].1 }),
            AnchorSel::Dead => pczt_with_anchor(dead),
        };
        txs.push(MigrationTransaction::from_parts(tid(r.id), r.kind, pczt, r.deps.iter().map(|d| tid(*d)).collect(), bh(sched), bh(expiry), boundary.map(bh), txid, state, lock, mark, nfs, report));
    }

    let z = |v: u64| Zatoshis::const_from_u64(v);
    let crossing_values: Vec<Zatoshis> = spec.transfers.iter().map(|g| z(VALUES[g.value_sel as usize % VALUES.len()])).collect();
    let total: u64 = crossing_values.iter().map(|v| v.into_u64()).sum();
    let denominations = DenominationPlan::from_stored_parts(crossing_values, z(15_000), Some(z(4321)), z(10_000 * all_preps.len() as u64), z(total + 1_000_000), z(total)).expect("small values");
    let layers: Vec<Vec<PrepTransaction>> = spec
        .layers
        .iter()
        .enumerate()
        .map(|(li, l)| {
            l.iter()
                .enumerate()
                .map(|(k, g)| {
                    let v = z(VALUES[g.value_sel as usize % VALUES.len()] + 15_000);
                    let input = if li == 0 { PrepInput::Wallet { index: k, value: v } } else { PrepInput::Prior { layer: li - 1, transaction: 0, output: 0, value: v } };
                    PrepTransaction::from_parts(vec![input], vec![PrepOutput::Funding(v), PrepOutput::Change(z(1))])
                })
                .collect()
        })
        .collect();
    let direct: Vec<(usize, Zatoshis)> = rows
        .iter()
        .filter(|r| matches!(r.kind, MigrationTxKind::Transfer { .. }) && r.deps.is_empty())
        .map(|r| (r.id as usize, z(VALUES[r.g.value_sel as usize % VALUES.len()] + 15_000)))
        .collect();
    let preparation = PreparationPlan::from_parts(layers, direct);
    let status = match spec.stage {
        Stage::Planned => {
            if spec.planning {
                MigrationStatus::Planning
            } else {
                MigrationStatus::Committed
            }
        }
        Stage::PartlyBroadcast | Stage::PartlyMined => MigrationStatus::InProgress,
        Stage::Complete => MigrationStatus::Complete,
        Stage::Failed => MigrationStatus::Failed,
        Stage::Superseded => MigrationStatus::Superseded,
        Stage::Cancelled => MigrationStatus::Cancelled,
    };
    let state = MigrationState::from_parts(
        status,
        denominations,
        preparation,
        txs,
        AnchorBucketInterval::custom(NonZeroU32::new(interval).unwrap()),
        ReplanThreshold::new(spec.threshold.min(100)).unwrap(),
    );
    (state, locks)
}

// ------------------------------------------------------------------------------------------------
// Operations on the store
// ------------------------------------------------------------------------------------------------

#[derive(Clone, Copy, Debug)]
pub enum MutSel {
    /// `mark_broadcast` of a proved transaction (the consumer's record of a submission)
    MarkBroadcast,
    /// `report_broadcast_failure` on a proved transaction
    ReportFailure,
    /// `mark_mined` of a broadcast transaction (mined promotion)
    MarkMined,
    /// `mark_superseded` (terminal: the persist path must also release the reservations)
    Supersede,
    /// `mark_cancelled`
    MarkCancelled,
    /// `apply_signature` on a transaction awaiting its signature
    ApplySignature,
    /// `MigrationState::truncate_to_height` by the consumer
    TruncateState,
}

#[derive(Clone, Debug)]
pub enum MigOp {
    /// `replace_migration(state)`: fresh record, replacement of the pending record, or a terminal state
    Replace { acct: u8, spec: Box<MigSpec> },
    /// `get_migration`, one `MigrationState` mutator, `replace_migration`
    Mutate { acct: u8, how: MutSel, sel: u32, off: i8 },
    /// `update_transaction(id, state)`; `unknown` = an id the migration does not contain
    UpdateTx { acct: u8, sel: u32, st: StSel, unknown: bool },
    /// `cancel_migration()`
    Cancel { acct: u8 },
    /// `store_proved_transaction(&mut state, ProvedTransaction)`; `lock` = the proof carries a lock-owner token
    /// (`set_transaction_proved` + `replace_migration`, what `ProvedTransaction::apply` does for a locking prover)
    StoreProved { acct: u8, sel: u32, lock: bool, parseable: bool },
    /// `take_transaction_for_broadcast(state, id)` on a stored PCZT that carries no proofs: fails before writing
    TakeForBroadcast { acct: u8, sel: u32 },
    /// one `advance_migration` call over the SQLite store and its oracle
    Advance { acct: u8, est: i8, settle: u8, salt: u8 },
}

pub fn arb_mig_op() -> impl Strategy<Value = MigOp> {
    let how = prop_oneof![
        4 => Just(MutSel::MarkBroadcast),
        3 => Just(MutSel::ReportFailure),
        4 => Just(MutSel::MarkMined),
        2 => Just(MutSel::Supersede),
        2 => Just(MutSel::MarkCancelled),
        1 => Just(MutSel::ApplySignature),
        2 => Just(MutSel::TruncateState),
    ];
    prop_oneof![
        8 => (any::<u8>(), arb_mig_spec()).prop_map(|(acct, spec)| MigOp::Replace { acct, spec: Box::new(spec) }),
        8 => (any::<u8>(), how, any::<u32>(), -6i8..=8).prop_map(|(acct, how, sel, off)| MigOp::Mutate { acct, how, sel, off }),
        4 => (any::<u8>(), any::<u32>(), arb_st(), prop::bool::weighted(0.15)).prop_map(|(acct, sel, st, unknown)| MigOp::UpdateTx { acct, sel, st, unknown }),
        4 => any::<u8>().prop_map(|acct| MigOp::Cancel { acct }),
        4 => (any::<u8>(), any::<u32>(), any::<bool>(), any::<bool>()).prop_map(|(acct, sel, lock, parseable)| MigOp::StoreProved { acct, sel, lock, parseable }),
        1 => (any::<u8>(), any::<u32>()).prop_map(|(acct, sel)| MigOp::TakeForBroadcast { acct, sel }),
        7 => (any::<u8>(), -2i8..=20, 0u8..4, any::<u8>()).prop_map(|(acct, est, settle, salt)| MigOp::Advance { acct, est, settle, salt }),
    ]
}

pub fn mig_op_kind(op: &MigOp) -> &'static str {
    match op {
        MigOp::Replace { .. } => "op:mig.replace_migration",
        MigOp::Mutate { how, .. } => match how {
            MutSel::MarkBroadcast => "op:mig.mark_broadcast+persist",
            MutSel::ReportFailure => "op:mig.report_broadcast_failure+persist",
            MutSel::MarkMined => "op:mig.mark_mined+persist",
            MutSel::Supersede => "op:mig.mark_superseded+persist",
            MutSel::MarkCancelled => "op:mig.mark_cancelled+persist",
            MutSel::ApplySignature => "op:mig.apply_signature+persist",
            MutSel::TruncateState => "op:mig.state_truncate_to_height+persist",
        },
        MigOp::UpdateTx { .. } => "op:mig.update_transaction",
        MigOp::Cancel { .. } => "op:mig.cancel_migration",
        MigOp::StoreProved { .. } => "op:mig.store_proved_transaction",
        MigOp::TakeForBroadcast { .. } => "op:mig.take_transaction_for_broadcast",
        MigOp::Advance { .. } => "op:mig.advance_migration",
    }
}

fn dbg<E: std::fmt::Debug>(e: E) -> String {
    format!("{e:?}")
}

fn rank(s: &MigrationTxState) -> u8 {
    match s {
        MigrationTxState::AwaitingSignature => 0,
        MigrationTxState::Signed => 1,
        MigrationTxState::Proved => 2,
        MigrationTxState::Broadcast { .. } => 3,
        MigrationTxState::Mined { .. } => 4,
    }
}

/// A transaction in lifecycle rank `want` if there is one (what the production flow would pick), else any.
fn pick_tx(st: &MigrationState, sel: u32, want: u8) -> Option<MigrationTransaction> {
    let pref: Vec<&MigrationTransaction> = st.transactions().iter().filter(|t| rank(&t.state()) == want).collect();
    if !pref.is_empty() {
        return Some(pref[pick_index(sel, pref.len())].clone());
    }
    let all = st.transactions();
    if all.is_empty() {
        None
    } else {
        Some(all[pick_index(sel, all.len())].clone())
    }
}

/// Runs one store operation on `conn` (the connection the wallet uses). Deterministic in (database state, op, env).
pub fn run_mig_op(conn: &mut Connection, op: &MigOp, env: &MigEnv) -> Result<String, String> {
    let acct_sel = match op {
        MigOp::Replace { acct, .. } | MigOp::Mutate { acct, .. } | MigOp::UpdateTx { acct, .. } | MigOp::Cancel { acct } | MigOp::StoreProved { acct, .. } | MigOp::TakeForBroadcast { acct, .. } | MigOp::Advance { acct, .. } => *acct,
    };
    let ai = env.account_index(acct_sel);
    let mut store = PoolMigrations::for_account(env.net, clock(), &mut *conn, env.accounts[ai]).map_err(dbg)?;
    match op {
        MigOp::Replace { spec, .. } => {
            let (state, _) = build_migration(spec, env, ai);
            store.replace_migration(&state).map(|_| format!("replaced with {:?}", state.status())).map_err(dbg)
        }
        MigOp::Mutate { how, sel, off, .. } => {
            let Some(mut st) = store.get_migration().map_err(dbg)? else { return Ok("no-pending-migration".into()) };
            match how {
                MutSel::MarkBroadcast => {
                    if let Some(t) = pick_tx(&st, *sel, 2) {
                        st.mark_broadcast(t.id());
                    }
                }
                MutSel::ReportFailure => {
                    if let Some(t) = pick_tx(&st, *sel, 2) {
                        st.report_broadcast_failure(t.id(), bh(clamp(env.tip as i64 + *off as i64)));
                    }
                }
                MutSel::MarkMined => {
                    if let Some(t) = pick_tx(&st, *sel, 3) {
                        st.mark_mined(t.id(), bh(env.scanned.saturating_sub(off.unsigned_abs() as u32)));
                    }
                }
                MutSel::Supersede => st.mark_superseded(),
                MutSel::MarkCancelled => st.mark_cancelled(),
                MutSel::ApplySignature => {
                    if let Some(t) = pick_tx(&st, *sel, 0) {
                        let _ = st.apply_signature(t.id(), vec![0x51, u32::from(t.id()) as u8, *off as u8]);
                    }
                }
                MutSel::TruncateState => st.truncate_to_height(bh(env.scanned.saturating_sub(off.unsigned_abs() as u32))),
            }
            store.replace_migration(&st).map(|_| format!("persisted {:?}", st.status())).map_err(dbg)
        }
        MigOp::UpdateTx { sel, st, unknown, .. } => {
            let cur = store.get_migration().map_err(dbg)?;
            let target = cur.as_ref().and_then(|s| pick_tx(s, *sel, 5));
            let (id, txid) = match (&target, unknown) {
                (Some(t), false) => (t.id(), t.txid()),
                _ => (tid(u32::MAX), TxId::from_bytes([0x77; 32])),
            };
            let new = match st {
                StSel::Awaiting => MigrationTxState::AwaitingSignature,
                StSel::Signed => MigrationTxState::Signed,
                StSel::Proved => MigrationTxState::Proved,
                StSel::Broadcast => MigrationTxState::Broadcast { txid },
                StSel::Mined => MigrationTxState::Mined { txid, height: bh(env.scanned) },
            };
            store.update_transaction(id, new).map(|_| "updated".to_string()).map_err(dbg)
        }
        MigOp::Cancel { .. } => store.cancel_migration().map(|o| format!("cancelled: released {} in flight {} mined {}", o.released().len(), o.in_flight().len(), o.mined().len())).map_err(dbg),
        MigOp::StoreProved { sel, lock, parseable, .. } => {
            let Some(mut st) = store.get_migration().map_err(dbg)? else { return Ok("no-pending-migration".into()) };
            let Some(t) = pick_tx(&st, *sel, 1) else { return Ok("no-transactions".into()) };
            let id = u32::from(t.id());
            let pczt = if *parseable { pczt_with_anchor(hash32(&[0x9C, 0x02], id)) } else { vec![0xF0, id as u8, 0x02] };
            if *lock {
                st.set_transaction_proved(t.id(), pczt, Some(MigrationLockOwner::from_bytes(lock_token(0xEE, id))));
                store.replace_migration(&st).map(|_| "proved+locked".to_string()).map_err(dbg)
            } else {
                store.store_proved_transaction(&mut st, ProvedTransaction::from_parts(t.id(), pczt)).map(|_| "proved".to_string()).map_err(dbg)
            }
        }
        MigOp::TakeForBroadcast { sel, .. } => {
            let Some(st) = store.get_migration().map_err(dbg)? else { return Ok("no-pending-migration".into()) };
            let Some(t) = pick_tx(&st, *sel, 2) else { return Ok("no-transactions".into()) };
            store.take_transaction_for_broadcast(&st, t.id()).map(|tx| format!("took {}", tx.txid())).map_err(dbg)
        }
        MigOp::Advance { est, settle, salt, .. } => {
            let Some(mut st) = store.get_migration().map_err(dbg)? else { return Ok("no-pending-migration".into()) };
            let scanned_t = env.scanned.saturating_add(1);
            let targets = DuenessTargets::new(bh(scanned_t), bh(clamp(env.tip as i64 + 1 + *est as i64)));
            let cfg = AdvanceConfig::new(ReorgSettleDepth::new(*settle as u32));
            let mut rng = rand_chacha::ChaCha20Rng::from_seed([*salt; 32]);
            advance_migration(&mut store, &mut st, targets, &cfg, &mut rng).map(|a| format!("{:?}", a.step())).map_err(dbg)
        }
    }
}

// ------------------------------------------------------------------------------------------------
// The migration-oracle reads (reader side)
// ------------------------------------------------------------------------------------------------

/// What the reader asks, in order: `check_step_satisfiability` for each probe transaction, `mined_height` for each
/// txid (both open their own read transaction, `store.rs`), then — the way a caller obtains a snapshot of reads that
/// are NOT documented as snapshots (AGENTS.md, "Database Write Atomicity") — `get_migration`, `latest_migration` and
/// `list_migrations` inside ONE caller-opened transaction.
pub struct ReadPlan {
    pub acct: usize,
    pub probes: Vec<MigrationTransaction>,
    pub txids: Vec<[u8; 32]>,
    pub settle: u32,
}

pub struct ReadOutcome {
    pub value: String,
    /// the concurrent write had completed before this call started
    pub write_before: bool,
    /// the concurrent write had completed when this call returned
    pub write_after: bool,
    /// reader VM steps when the call started / ended (as counted by `steps`)
    pub step_range: (u64, u64),
}

fn summary_line(s: &zcash_client_sqlite::pool_migration::MigrationSummary) -> String {
    // everything but the random record id
    format!(
        "{:?}/{:?}/{:?}/{:?}/{:?}/n{}/m{}/f{}/u{}/v{:?}",
        s.status(),
        s.committed_height(),
        s.total_input(),
        s.total_migratable(),
        s.change(),
        s.transaction_count(),
        s.mined_count(),
        s.in_flight_count(),
        s.unsatisfiable_count(),
        s.value_migrated()
    )
}

pub fn run_reads(conn: &Connection, plan: &ReadPlan, env: &MigEnv, written: &AtomicBool, steps: &dyn Fn() -> u64) -> Vec<ReadOutcome> {
    let mut out = vec![];
    let mut call = |f: &mut dyn FnMut() -> String| {
        let (b, s0) = (written.load(Ordering::SeqCst), steps());
        let value = f();
        out.push(ReadOutcome { value, write_before: b, write_after: written.load(Ordering::SeqCst), step_range: (s0, steps()) });
    };
    let acct = env.accounts[plan.acct];
    // the store handle resolves the account row when it is created, i.e. before every read below
    match PoolMigrations::for_account((), (), conn, acct) {
        Ok(store) => {
            for tx in &plan.probes {
                call(&mut || format!("{:?}", store.check_step_satisfiability(tx, ReorgSettleDepth::new(plan.settle))));
            }
            for t in &plan.txids {
                call(&mut || format!("{:?}", store.mined_height(TxId::from_bytes(*t))));
            }
        }
        Err(e) => call(&mut || format!("for_account: {e:?}")),
    }
    call(&mut || {
        let view = match conn.unchecked_transaction() {
            Ok(v) => v,
            Err(e) => return format!("begin: {e:?}"),
        };
        let r = match PoolMigrations::for_account((), (), &*view, acct) {
            Ok(s) => format!(
                "pending={:?} latest={:?} history={:?}",
                s.get_migration(),
                s.latest_migration(),
                s.list_migrations().map(|v| v.iter().map(summary_line).collect::<Vec<_>>())
            ),
            Err(e) => format!("for_account: {e:?}"),
        };
        match view.commit() {
            Ok(()) => r,
            Err(e) => format!("commit: {e:?}"),
        }
    });
    out
}

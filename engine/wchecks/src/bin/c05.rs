//! C05 — Compact-block scanning finds exactly the wallet's notes and spends.
//!
//! * exactness: generated chains (several transactions per block, several pools per transaction,
//!   1-3 wallet accounts x external/diversified/internal scope, foreign keys, spends of tracked and
//!   untracked nullifiers) are scanned block by block with `scanning::scan_block`; every field of
//!   every `ScannedBlock` is compared with what the model knows it encrypted;
//! * rejection: one continuity datum or field of a valid block is corrupted; `scan_block` must
//!   return `Err`, never panic, and `scan_cached_blocks` must leave the wallet database untouched;
//! * schedule independence: the same chains go through `scan_cached_blocks` (batched trial
//!   decryption on the rayon pool, blocks above and below the batching threshold of 100 outputs)
//!   in child processes with different thread counts; the wallet rows must equal the model.

use std::collections::{BTreeMap, BTreeSet};

use chainsim::*;
use incrementalmerkletree::{Marking, Retention};
use proptest::prelude::*;
use vcore::{catch, vensure, vensure_eq, vfail, CaseResult, Ctx, Fail, Obs};
use zcash_client_backend::{
    data_api::BlockMetadata,
    proto::compact_formats::CompactBlock,
    scanning::{scan_block, Nullifiers, ScanError, ScanningKeys},
};
use zcash_primitives::block::BlockHash;
use zcash_protocol::consensus::BlockHeight;
use zip32::Scope;

#[derive(Clone, Debug)]
struct Case {
    world: WorldSpec,
    blocks: Vec<BlockSpec>,
    /// start scanning at this block index (earlier notes are then untracked)
    start: u8,
    /// supply explicit prior metadata for the first scanned block (else None)
    first_prior: bool,
}

fn arb_case(max_blocks: usize, max_txs: usize, max_items: usize) -> impl Strategy<Value = Case> {
    arb_world().prop_flat_map(move |world| {
        let iw = world.nu6_3_offset.is_some();
        (
            proptest::collection::vec(
                prop_oneof![
                    1 => Just(BlockSpec::default()),
                    6 => proptest::collection::vec(arb_tx(world.n_accounts, world.n_foreign, iw, max_items), 1..=max_txs).prop_map(|txs| BlockSpec { txs }),
                ],
                2..=max_blocks,
            ),
            0u8..3,
            any::<bool>(),
        )
            .prop_map(move |(blocks, start, first_prior)| Case { world: world.clone(), blocks, start, first_prior })
    })
}

type Keys = ScanningKeys<u32, (u32, Scope)>;

fn scanning_keys(world: &World) -> Keys {
    ScanningKeys::from_account_ufvks(world.accounts.iter().enumerate().map(|(i, k)| (i as u32, k.ufvk.clone())))
}

fn prior_meta(chain: &Chain, h: u32) -> BlockMetadata {
    let sizes = chain.sizes_at(h);
    let hash = if h == chain.base_height { [0u8; 32] } else { chain.block_at(h).unwrap().hash };
    BlockMetadata::from_parts(BlockHeight::from_u32(h), BlockHash(hash), Some(sizes[0]), Some(sizes[1]), Some(sizes[2]))
}

#[derive(Default)]
struct Tally {
    wallet_outputs: u64,
    deep_outputs: u64,
    tracked_spends: u64,
    untracked_spends: u64,
    blocks: u64,
    internal: u64,
    diversified: u64,
    foreign_outputs: u64,
    change: u64,
}

#[derive(Clone, Debug, PartialEq, Eq, PartialOrd, Ord)]
struct Recv {
    pool: Pool,
    tx_index: u16,
    txid: [u8; 32],
    out_index: u32,
    account: u32,
    value: u64,
    internal: bool,
    nf: [u8; 32],
    position: u64,
    is_change: bool,
}

#[derive(Clone, Debug, PartialEq, Eq, PartialOrd, Ord)]
struct Spent {
    pool: Pool,
    tx_index: u16,
    txid: [u8; 32],
    index: u32,
    nf: [u8; 32],
    account: u32,
}

/// Compares one scanned block with the model. `tracked`: model note ids whose nullifiers are
/// tracked when this block is scanned.
fn compare_block(
    world: &World,
    chain: &Chain,
    blk: &BlockRec,
    sb: &zcash_client_backend::data_api::ScannedBlock<u32>,
    tracked: &BTreeSet<usize>,
    t: &mut Tally,
) -> Result<(), Fail> {
    let _ = world;
    let h = blk.height;
    vensure_eq!(u32::from(sb.height()), h, "scanned-height", "height");
    vensure_eq!(sb.block_hash().0, blk.hash, "scanned-hash", "block hash at {h}");
    vensure_eq!(sb.sapling().final_tree_size(), blk.sizes_after[0], "final-tree-size", "sapling final tree size at {h}");
    vensure_eq!(sb.orchard().final_tree_size(), blk.sizes_after[1], "final-tree-size", "orchard final tree size at {h}");
    vensure_eq!(sb.ironwood().final_tree_size(), blk.sizes_after[2], "final-tree-size", "ironwood final tree size at {h}");

    // expected
    let mut want_recv: Vec<Recv> = vec![];
    let mut want_spent: Vec<Spent> = vec![];
    let mut want_unlinked: BTreeMap<(Pool, u16), Vec<[u8; 32]>> = BTreeMap::new();
    for tx in &blk.txs {
        let mut spent_accounts = BTreeSet::new();
        for s in &tx.spends {
            let linked = s.note.filter(|n| tracked.contains(n));
            match linked {
                Some(n) => {
                    let Who::Wallet(a) = chain.notes[n].who else { unreachable!() };
                    spent_accounts.insert(a as u32);
                    want_spent.push(Spent { pool: s.pool, tx_index: tx.index, txid: tx.txid, index: s.index, nf: s.nf, account: a as u32 });
                    t.tracked_spends += 1;
                }
                None => {
                    want_unlinked.entry((s.pool, tx.index)).or_default().push(s.nf);
                    t.untracked_spends += 1;
                }
            }
        }
        for n in &tx.recv {
            let note = &chain.notes[*n];
            match note.who {
                Who::Wallet(a) => {
                    let internal = matches!(note.scope, ScopeSel::Internal);
                    t.wallet_outputs += 1;
                    if tx.index >= 1 && note.out_index >= 1 {
                        t.deep_outputs += 1;
                    }
                    if internal {
                        t.internal += 1;
                    }
                    if matches!(note.scope, ScopeSel::Diversified(_)) {
                        t.diversified += 1;
                    }
                    let is_change = spent_accounts.contains(&(a as u32));
                    if is_change {
                        t.change += 1;
                    }
                    want_recv.push(Recv {
                        pool: note.pool,
                        tx_index: tx.index,
                        txid: tx.txid,
                        out_index: note.out_index,
                        account: a as u32,
                        value: note.value,
                        internal,
                        nf: note.nf,
                        position: note.position,
                        is_change,
                    });
                }
                Who::Foreign(_) => t.foreign_outputs += 1,
            }
        }
    }
    // NOTE: is_change depends on spends of the whole tx, which precede outputs in our construction order
    // only logically; recompute with the complete spent-account set per tx.
    {
        let mut per_tx: BTreeMap<u16, BTreeSet<u32>> = BTreeMap::new();
        for s in &want_spent {
            per_tx.entry(s.tx_index).or_default().insert(s.account);
        }
        for r in want_recv.iter_mut() {
            r.is_change = per_tx.get(&r.tx_index).map_or(false, |s| s.contains(&r.account));
        }
    }

    // actual
    let mut got_recv: Vec<Recv> = vec![];
    let mut got_spent: Vec<Spent> = vec![];
    let mut last_index: Option<u16> = None;
    for wtx in sb.transactions() {
        let txid: [u8; 32] = *wtx.txid().as_ref();
        let ti = u16::from(wtx.block_index());
        if let Some(l) = last_index {
            vensure!(ti > l, "wallet-tx-order", "wallet transactions of block {h} are not in increasing block-index order");
        }
        last_index = Some(ti);
        let model_tx = blk.txs.get(ti as usize);
        vensure!(model_tx.map_or(false, |m| m.txid == txid), "wallet-tx-index", "block {h}: WalletTx index {ti} carries txid {} which is not the transaction at that index", hex::encode(txid));
        for o in wtx.sapling_outputs() {
            got_recv.push(Recv {
                pool: Pool::Sapling,
                tx_index: ti,
                txid,
                out_index: o.index() as u32,
                account: *o.account_id(),
                value: o.note().value().inner(),
                internal: o.recipient_key_scope() == Some(Scope::Internal),
                nf: o.nf().map(|n| n.0).unwrap_or([0; 32]),
                position: u64::from(o.note_commitment_tree_position()),
                is_change: o.is_change(),
            });
            vensure!(o.recipient_key_scope().is_some(), "scope-missing", "sapling output without key scope");
        }
        for (pool, outs) in [(Pool::Orchard, wtx.orchard_outputs()), (Pool::Ironwood, wtx.ironwood_outputs())] {
            for o in outs {
                got_recv.push(Recv {
                    pool,
                    tx_index: ti,
                    txid,
                    out_index: o.index() as u32,
                    account: *o.account_id(),
                    value: o.note().0.value().inner(),
                    internal: o.recipient_key_scope() == Some(Scope::Internal),
                    nf: o.nf().map(|n| n.to_bytes()).unwrap_or([0; 32]),
                    position: u64::from(o.note_commitment_tree_position()),
                    is_change: o.is_change(),
                });
                vensure!(o.recipient_key_scope().is_some(), "scope-missing", "{pool:?} output without key scope");
            }
        }
        for s in wtx.sapling_spends() {
            got_spent.push(Spent { pool: Pool::Sapling, tx_index: ti, txid, index: s.index() as u32, nf: s.nf().0, account: *s.account_id() });
        }
        for s in wtx.orchard_spends() {
            got_spent.push(Spent { pool: Pool::Orchard, tx_index: ti, txid, index: s.index() as u32, nf: s.nf().to_bytes(), account: *s.account_id() });
        }
        for s in wtx.ironwood_spends() {
            got_spent.push(Spent { pool: Pool::Ironwood, tx_index: ti, txid, index: s.index() as u32, nf: s.nf().to_bytes(), account: *s.account_id() });
        }
        let has = !wtx.sapling_outputs().is_empty()
            || !wtx.orchard_outputs().is_empty()
            || !wtx.ironwood_outputs().is_empty()
            || !wtx.sapling_spends().is_empty()
            || !wtx.orchard_spends().is_empty()
            || !wtx.ironwood_spends().is_empty();
        vensure!(has, "empty-wallet-tx", "block {h}: a WalletTx with neither outputs nor spends was reported");
    }
    got_recv.sort();
    want_recv.sort();
    got_spent.sort();
    want_spent.sort();
    if got_recv != want_recv {
        let g: BTreeSet<_> = got_recv.iter().collect();
        let w: BTreeSet<_> = want_recv.iter().collect();
        vfail!(
            "received-mismatch",
            "block {h}: received outputs differ; reported but not expected: {:?}; expected but not reported: {:?}",
            g.difference(&w).take(3).collect::<Vec<_>>(),
            w.difference(&g).take(3).collect::<Vec<_>>()
        );
    }
    if got_spent != want_spent {
        let g: BTreeSet<_> = got_spent.iter().collect();
        let w: BTreeSet<_> = want_spent.iter().collect();
        vfail!(
            "spent-mismatch",
            "block {h}: spends differ; reported but not expected: {:?}; expected but not reported: {:?}",
            g.difference(&w).take(3).collect::<Vec<_>>(),
            w.difference(&g).take(3).collect::<Vec<_>>()
        );
    }

    // commitments in block order with retention marks
    let wallet_cms: BTreeSet<(Pool, [u8; 32])> = want_recv
        .iter()
        .map(|r| {
            let n = chain.notes.iter().find(|n| n.block_id == blk.id && n.pool == r.pool && n.tx_index == r.tx_index && n.out_index == r.out_index).unwrap();
            (r.pool, n.cm)
        })
        .collect();
    let check_cms = |pool: Pool, got: Vec<([u8; 32], Retention<BlockHeight>)>| -> Result<(), Fail> {
        let want = &blk.commitments[pool as usize];
        vensure_eq!(got.len(), want.len(), "commitment-count", "block {h} {pool:?} commitment count");
        for (i, (cm, ret)) in got.iter().enumerate() {
            vensure!(*cm == want[i], "commitment-order", "block {h} {pool:?} commitment #{i} is {} but the block has {}", hex::encode(cm), hex::encode(want[i]));
            let mine = wallet_cms.contains(&(pool, *cm));
            let last = i + 1 == want.len();
            let ok = match ret {
                Retention::Ephemeral => !mine && !last,
                Retention::Marked => mine && !last,
                Retention::Checkpoint { id, marking } => last && u32::from(*id) == h && (matches!(marking, Marking::Marked) == mine) && !matches!(marking, Marking::Reference),
                _ => false,
            };
            vensure!(ok, "commitment-retention", "block {h} {pool:?} commitment #{i} (wallet note: {mine}, last in block: {last}) has retention {ret:?}");
        }
        Ok(())
    };
    check_cms(Pool::Sapling, sb.sapling().commitments().iter().map(|(n, r)| (n.to_bytes(), *r)).collect())?;
    check_cms(Pool::Orchard, sb.orchard().commitments().iter().map(|(n, r)| (n.to_bytes(), *r)).collect())?;
    check_cms(Pool::Ironwood, sb.ironwood().commitments().iter().map(|(n, r)| (n.to_bytes(), *r)).collect())?;

    // nullifier map = every revealed nullifier that was not linked, per transaction
    let check_nfmap = |pool: Pool, got: Vec<(u16, [u8; 32], Vec<[u8; 32]>)>| -> Result<(), Fail> {
        vensure_eq!(got.len(), blk.txs.len(), "nullifier-map-len", "block {h} {pool:?} nullifier map entries");
        for (ti, txid, nfs) in got {
            vensure!(blk.txs.get(ti as usize).map_or(false, |m| m.txid == txid), "nullifier-map-tx", "block {h}: nullifier map entry ({ti}, {}) does not match the block", hex::encode(txid));
            let want = want_unlinked.get(&(pool, ti)).cloned().unwrap_or_default();
            vensure!(nfs == want, "nullifier-map-content", "block {h} {pool:?} tx {ti}: unlinked nullifiers {:?} != expected {:?}", nfs.iter().map(hex::encode).collect::<Vec<_>>(), want.iter().map(hex::encode).collect::<Vec<_>>());
        }
        Ok(())
    };
    check_nfmap(Pool::Sapling, sb.sapling().nullifier_map().iter().map(|(i, t, n)| (u16::from(*i), *t.as_ref(), n.iter().map(|x| x.0).collect())).collect())?;
    check_nfmap(Pool::Orchard, sb.orchard().nullifier_map().iter().map(|(i, t, n)| (u16::from(*i), *t.as_ref(), n.iter().map(|x| x.to_bytes()).collect())).collect())?;
    check_nfmap(Pool::Ironwood, sb.ironwood().nullifier_map().iter().map(|(i, t, n)| (u16::from(*i), *t.as_ref(), n.iter().map(|x| x.to_bytes()).collect())).collect())?;
    t.blocks += 1;
    Ok(())
}

fn build(case_world: &WorldSpec, blocks: &[BlockSpec]) -> (World, Chain) {
    let world = World::new(case_world);
    let mut chain = Chain::new(&world);
    for b in blocks {
        chain.add_block(&world, b);
    }
    (world, chain)
}

fn run_exact(case: &Case) -> CaseResult {
    let (world, chain) = build(&case.world, &case.blocks);
    let keys = scanning_keys(&world);
    let mut nullifiers = Nullifiers::empty();
    let mut tracked: BTreeSet<usize> = BTreeSet::new();
    let mut t = Tally::default();
    let start = (case.start as usize).min(chain.branch.len() - 1);
    let mut prior: Option<BlockMetadata> = if case.first_prior { Some(prior_meta(&chain, chain.base_height + start as u32)) } else { None };
    for idx in start..chain.branch.len() {
        let blk = &chain.blocks[chain.branch[idx]];
        let r = catch(|| scan_block(&world.net, blk.cb.clone(), &keys, &nullifiers, prior.as_ref()))
            .map_err(|p| Fail::new(format!("scan-block-panic:{}", vcore::panic_site(&p)), format!("scan_block panicked on a valid block at {}: {p}", blk.height)))?;
        let sb = r.map_err(|e| Fail::new("valid-block-rejected", format!("scan_block rejected a valid block at {}: {e:?}", blk.height)))?;
        compare_block(&world, &chain, blk, &sb, &tracked, &mut t)?;
        // update the tracked set the way Nullifiers::update_with is documented to
        for tx in &blk.txs {
            for s in &tx.spends {
                if let Some(n) = s.note {
                    tracked.remove(&n);
                }
            }
        }
        for tx in &blk.txs {
            for n in &tx.recv {
                if matches!(chain.notes[*n].who, Who::Wallet(_)) {
                    tracked.insert(*n);
                }
            }
        }
        nullifiers.update_with(&sb);
        let meta = sb.to_block_metadata();
        vensure_eq!(u32::from(meta.block_height()), blk.height, "block-metadata", "to_block_metadata height");
        vensure_eq!(meta.sapling_tree_size(), Some(blk.sizes_after[0]), "block-metadata", "to_block_metadata sapling size");
        vensure_eq!(meta.orchard_tree_size(), Some(blk.sizes_after[1]), "block-metadata", "to_block_metadata orchard size");
        vensure_eq!(meta.ironwood_tree_size(), Some(blk.sizes_after[2]), "block-metadata", "to_block_metadata ironwood size");
        prior = Some(meta);
    }
    let nontrivial = t.deep_outputs > 0 || t.tracked_spends > 0;
    Ok(Obs::new(nontrivial)
        .label_if(t.deep_outputs > 0, "wallet-output-at-tx>=1,index>=1")
        .label_if(t.tracked_spends > 0, "tracked-spend")
        .label_if(t.untracked_spends > 0, "untracked-spend")
        .label_if(t.internal > 0, "internal-scope")
        .label_if(t.diversified > 0, "diversified")
        .label_if(t.foreign_outputs > 0, "foreign-output")
        .label_if(t.change > 0, "change-output")
        .label_if(case.world.nu6_3_offset.is_some(), "ironwood-world")
        .label_if(case.world.n_accounts > 1, "multi-account")
        .label_if(!case.first_prior, "no-prior-metadata")
        .count("blocks-compared", t.blocks)
        .count("wallet-outputs", t.wallet_outputs)
        .count("tracked-spends", t.tracked_spends))
}

// ------------------------------------------------------------------------------------------------
// rejection
// ------------------------------------------------------------------------------------------------

#[derive(Clone, Debug)]
enum Corruption {
    HeightPlus(u8),
    HeightMinus(u8),
    PrevHashFlip(u8),
    MetaSize { pool: u8, delta: i8 },
    MetaSizeMax { pool: u8 },
    MetaAbsentNoPrior,
    MetaTooSmallNoPrior { pool: u8 },
    FieldLen { field: u8, sel: u32, len: u8 },
    NonCanonical { field: u8, sel: u32 },
    TxIndexHuge { sel: u32 },
    TxidLen { sel: u32, len: u8 },
}

fn arb_corruption() -> impl Strategy<Value = Corruption> {
    prop_oneof![
        1 => (1u8..4).prop_map(Corruption::HeightPlus),
        1 => (1u8..4).prop_map(Corruption::HeightMinus),
        1 => any::<u8>().prop_map(Corruption::PrevHashFlip),
        2 => (0u8..3, prop_oneof![Just(-1i8), Just(1), Just(2), Just(-2)]).prop_map(|(pool, delta)| Corruption::MetaSize { pool, delta }),
        1 => (0u8..3).prop_map(|pool| Corruption::MetaSizeMax { pool }),
        1 => Just(Corruption::MetaAbsentNoPrior),
        1 => (0u8..3).prop_map(|pool| Corruption::MetaTooSmallNoPrior { pool }),
        8 => (0u8..8, any::<u32>(), prop_oneof![Just(0u8), Just(1), Just(31), Just(33), Just(51), Just(53), Just(64)]).prop_map(|(field, sel, len)| Corruption::FieldLen { field, sel, len }),
        3 => (0u8..3, any::<u32>()).prop_map(|(field, sel)| Corruption::NonCanonical { field, sel }),
        1 => any::<u32>().prop_map(|sel| Corruption::TxIndexHuge { sel }),
        1 => (any::<u32>(), prop_oneof![Just(0u8), Just(31), Just(33)]).prop_map(|(sel, len)| Corruption::TxidLen { sel, len }),
    ]
}

fn resize(v: &mut Vec<u8>, len: usize) -> bool {
    if v.len() == len {
        return false;
    }
    v.resize(len, 0x11);
    true
}

/// Applies the corruption; returns (applied, needs_prior, signature-class)
fn corrupt(cb: &mut CompactBlock, c: &Corruption) -> Option<(bool, &'static str)> {
    // returns Some((use_prior_metadata, class)) when the corruption could be applied
    match c {
        Corruption::HeightPlus(d) => {
            cb.height += *d as u64;
            Some((true, "height"))
        }
        Corruption::HeightMinus(d) => {
            cb.height -= *d as u64;
            Some((true, "height"))
        }
        Corruption::PrevHashFlip(b) => {
            let i = (*b as usize) % 32;
            cb.prev_hash[i] ^= 1 << (b % 8);
            Some((true, "prev-hash"))
        }
        Corruption::MetaSize { pool, delta } => {
            let m = cb.chain_metadata.as_mut()?;
            let f = match pool {
                0 => &mut m.sapling_commitment_tree_size,
                1 => &mut m.orchard_commitment_tree_size,
                _ => &mut m.ironwood_commitment_tree_size,
            };
            let nv = (*f as i64) + *delta as i64;
            if nv < 0 {
                return None;
            }
            *f = nv as u32;
            Some((true, "tree-size"))
        }
        Corruption::MetaSizeMax { pool } => {
            let m = cb.chain_metadata.as_mut()?;
            let f = match pool {
                0 => &mut m.sapling_commitment_tree_size,
                1 => &mut m.orchard_commitment_tree_size,
                _ => &mut m.ironwood_commitment_tree_size,
            };
            if *f == u32::MAX {
                return None;
            }
            *f = u32::MAX;
            Some((true, "tree-size"))
        }
        Corruption::MetaAbsentNoPrior => {
            cb.chain_metadata = None;
            Some((false, "tree-size-unknown"))
        }
        Corruption::MetaTooSmallNoPrior { pool } => {
            let count: u32 = cb
                .vtx
                .iter()
                .map(|t| match pool {
                    0 => t.outputs.len(),
                    1 => t.actions.len(),
                    _ => t.ironwood_actions.len(),
                } as u32)
                .sum();
            if count == 0 {
                return None;
            }
            let m = cb.chain_metadata.as_mut()?;
            let f = match pool {
                0 => &mut m.sapling_commitment_tree_size,
                1 => &mut m.orchard_commitment_tree_size,
                _ => &mut m.ironwood_commitment_tree_size,
            };
            *f = count - 1;
            Some((false, "tree-size-invalid"))
        }
        Corruption::FieldLen { field, sel, len } => {
            let len = *len as usize;
            // collect candidate fields
            let mut done = false;
            let ntx = cb.vtx.len();
            if ntx == 0 {
                return None;
            }
            let start = vcore::pick_index(*sel, ntx);
            for k in 0..ntx {
                let tx = &mut cb.vtx[(start + k) % ntx];
                done = match field {
                    0 => tx.outputs.first_mut().map_or(false, |o| resize(&mut o.cmu, len)),
                    1 => tx.outputs.last_mut().map_or(false, |o| resize(&mut o.ephemeral_key, len)),
                    2 => tx.outputs.last_mut().map_or(false, |o| resize(&mut o.ciphertext, len)),
                    3 => tx.spends.first_mut().map_or(false, |s| resize(&mut s.nf, len)),
                    4 => tx.actions.first_mut().map_or(false, |a| resize(&mut a.cmx, len)),
                    5 => tx.actions.last_mut().map_or(false, |a| resize(&mut a.nullifier, len)),
                    6 => tx.ironwood_actions.first_mut().map_or(false, |a| resize(&mut a.ephemeral_key, len)),
                    _ => tx.actions.last_mut().map_or(false, |a| resize(&mut a.ciphertext, len)),
                };
                if done {
                    break;
                }
            }
            if done {
                Some((true, match field {
                    0 => "field-len:sapling-cmu",
                    1 => "field-len:sapling-epk",
                    2 => "field-len:sapling-ciphertext",
                    3 => "field-len:sapling-nf",
                    4 => "field-len:orchard-cmx",
                    5 => "field-len:orchard-nullifier",
                    6 => "field-len:ironwood-epk",
                    _ => "field-len:orchard-ciphertext",
                }))
            } else {
                None
            }
        }
        Corruption::NonCanonical { field, sel } => {
            let ntx = cb.vtx.len();
            if ntx == 0 {
                return None;
            }
            let start = vcore::pick_index(*sel, ntx);
            for k in 0..ntx {
                let tx = &mut cb.vtx[(start + k) % ntx];
                let done = match field {
                    0 => tx.outputs.first_mut().map(|o| o.cmu = vec![0xff; 32]).is_some(),
                    1 => tx.actions.first_mut().map(|a| a.cmx = vec![0xff; 32]).is_some(),
                    _ => tx.actions.last_mut().map(|a| a.nullifier = vec![0xff; 32]).is_some(),
                };
                if done {
                    return Some((true, match field {
                        0 => "non-canonical:sapling-cmu",
                        1 => "non-canonical:orchard-cmx",
                        _ => "non-canonical:orchard-nullifier",
                    }));
                }
            }
            None
        }
        Corruption::TxIndexHuge { sel } => {
            let ntx = cb.vtx.len();
            if ntx == 0 {
                return None;
            }
            let i = vcore::pick_index(*sel, ntx);
            cb.vtx[i].index = 65536 + i as u64;
            Some((true, "tx-index-out-of-range"))
        }
        Corruption::TxidLen { sel, len } => {
            let ntx = cb.vtx.len();
            if ntx == 0 {
                return None;
            }
            let i = vcore::pick_index(*sel, ntx);
            cb.vtx[i].txid.resize(*len as usize, 0x22);
            Some((true, "field-len:txid"))
        }
    }
}

fn expected_error_ok(class: &str, e: &ScanError) -> bool {
    match class {
        "height" => matches!(e, ScanError::BlockHeightDiscontinuity { .. }),
        "prev-hash" => matches!(e, ScanError::PrevHashMismatch { .. }),
        "tree-size" => matches!(e, ScanError::TreeSizeMismatch { .. }),
        "tree-size-unknown" => matches!(e, ScanError::TreeSizeUnknown { .. }),
        "tree-size-invalid" => matches!(e, ScanError::TreeSizeInvalid { .. } | ScanError::TreeSizeMismatch { .. }),
        c if c.starts_with("field-len") || c.starts_with("non-canonical") => matches!(e, ScanError::EncodingInvalid { .. }),
        _ => true,
    }
}

fn run_reject(ctx: &Ctx, case: &(Case, Corruption)) -> CaseResult {
    let (case, corruption) = case;
    let (world, chain) = build(&case.world, &case.blocks);
    let keys = scanning_keys(&world);
    // corrupt the LAST block; the ones before are scanned normally
    let n = chain.branch.len();
    let last = &chain.blocks[chain.branch[n - 1]];
    let mut cb = last.cb.clone();
    let Some((use_prior, class)) = corrupt(&mut cb, corruption) else {
        return Ok(Obs::trivial().label("corruption-not-applicable"));
    };
    let prior = if use_prior { Some(prior_meta(&chain, last.height - 1)) } else { None };
    let nullifiers: Nullifiers<u32> = Nullifiers::empty();
    let r = catch(|| scan_block(&world.net, cb.clone(), &keys, &nullifiers, prior.as_ref()));
    let mut known_panic = false;
    match r {
        Err(p) => {
            let sig = format!("panic-on-malformed:{class}");
            if ctx.known_hit(&sig) {
                known_panic = true;
            } else {
                return Err(Fail::new(sig, format!("scan_block panicked on a block with corruption {corruption:?}: {p}")));
            }
        }
        Ok(Ok(_)) => vfail!(format!("accepted-malformed:{class}"), "scan_block accepted a block with corruption {corruption:?} (height {})", last.height),
        Ok(Err(e)) => {
            vensure!(expected_error_ok(class, &e), format!("wrong-error-class:{class}"), "corruption {corruption:?} produced {e:?}");
        }
    }

    // through the wallet: never partially applied
    if !known_panic && matches!(class, "height" | "prev-hash" | "tree-size") || class.starts_with("field-len") && class != "field-len:txid" || class.starts_with("non-canonical") {
        let mut w = SimWallet::new(&world, &chain, false);
        w.update_tip(chain.tip_height()).map_err(|e| Fail::new("update-tip-failed", e))?;
        if n > 2 {
            // scan all but the last two, then a batch [valid, corrupted]
            w.scan(&world, &chain, chain.base_height + 1, (n - 2) as u32).map_err(|e| Fail::new("valid-scan-failed", format!("{e:?}")))?;
        }
        let before = dump_db(w.conn());
        let from = chain.base_height + 1 + (n.saturating_sub(2)) as u32;
        let mut blocks: Vec<CompactBlock> = (from..=chain.tip_height()).map(|h| chain.block_at(h).unwrap().cb.clone()).collect();
        *blocks.last_mut().unwrap() = cb.clone();
        let src = RawBlockSource(blocks);
        let from_state = chain.state_at(from - 1).clone();
        let res = catch(|| zcash_client_backend::data_api::chain::scan_cached_blocks(&world.net, &src, w.db(), BlockHeight::from_u32(from), &from_state, 10));
        match res {
            Err(p) => {
                let sig = format!("panic-on-malformed-in-batch:{class}");
                if !ctx.known_hit(&sig) {
                    return Err(Fail::new(sig, format!("scan_cached_blocks panicked on corruption {corruption:?}: {p}")));
                }
            }
            Ok(Ok(_)) => vfail!(format!("wallet-accepted-malformed:{class}"), "scan_cached_blocks accepted a batch whose last block has corruption {corruption:?}"),
            Ok(Err(_)) => {
                let after = dump_db(w.conn());
                vensure!(before == after, format!("partially-applied:{class}"), "scan_cached_blocks failed on corruption {corruption:?} but changed the database: {}", diff_dump(&before, &after));
            }
        }
    }
    Ok(Obs::nontrivial().label(class).label_if(known_panic, "known-panic"))
}

// ------------------------------------------------------------------------------------------------
// batched path through the wallet (run in child processes with different rayon pool sizes)
// ------------------------------------------------------------------------------------------------

#[derive(Clone, Debug)]
struct BatchCase {
    world: WorldSpec,
    blocks: Vec<BlockSpec>,
    /// extra foreign+wallet outputs appended to one block so that it exceeds the batch threshold
    big_block: Option<(u8, u16)>,
    chunk: u8,
}

fn arb_batch_case() -> impl Strategy<Value = BatchCase> {
    arb_world().prop_flat_map(|world| {
        let iw = world.nu6_3_offset.is_some();
        (
            proptest::collection::vec(proptest::collection::vec(arb_tx(world.n_accounts, world.n_foreign, iw, 4), 0..4).prop_map(|txs| BlockSpec { txs }), 2..8),
            prop_oneof![2 => Just(None), 3 => (any::<u8>(), 80u16..260).prop_map(Some)],
            1u8..9,
        )
            .prop_map(move |(blocks, big_block, chunk)| BatchCase { world: world.clone(), blocks, big_block, chunk })
    })
}

fn run_batched(case: &BatchCase) -> CaseResult {
    let mut blocks = case.blocks.clone();
    let mut big = 0usize;
    if let Some((which, n)) = case.big_block {
        let i = which as usize % blocks.len();
        // spread the extra outputs over a few transactions; every 7th goes to the wallet
        let mut txs = vec![];
        let per_tx = 40;
        let mut left = n as usize;
        let mut k = 0usize;
        while left > 0 {
            let c = left.min(per_tx);
            let items = (0..c)
                .map(|j| {
                    k += 1;
                    ItemSpec::Recv {
                        pool: match (k + j) % 3 {
                            0 => Pool::Sapling,
                            1 => Pool::Orchard,
                            _ => Pool::Ironwood,
                        },
                        who: if k % 7 == 0 { Who::Wallet((k % 3) as u8) } else { Who::Foreign(0) },
                        scope: if k % 14 == 0 { ScopeSel::Internal } else { ScopeSel::External },
                        value: 10_000 + k as u64,
                    }
                })
                .collect();
            txs.push(TxSpec { items });
            left -= c;
        }
        blocks[i].txs.extend(txs);
        big = n as usize;
    }
    let (world, chain) = build(&case.world, &blocks);
    let mut w = SimWallet::new(&world, &chain, false);
    let tip = chain.tip_height();
    w.update_tip(tip).map_err(|e| Fail::new("update-tip-failed", e))?;
    let mut ledger = Ledger::default();
    let mut h = chain.base_height + 1;
    while h <= tip {
        let len = (case.chunk as u32).min(tip + 1 - h);
        catch(|| w.scan(&world, &chain, h, len))
            .map_err(|p| Fail::new(format!("batched-scan-panic:{}", vcore::panic_site(&p)), p))?
            .map_err(|e| Fail::new("batched-scan-failed", format!("{e:?}")))?;
        ledger.scan(&chain, h, len);
        h += len;
    }
    let got: Vec<ModelNoteRow> = w
        .note_rows()
        .into_iter()
        .filter(|r| r.mined_height.is_some())
        .map(|r| ModelNoteRow {
            pool: r.pool,
            account: r.account,
            txid: r.txid,
            out_index: r.out_index,
            value: r.value,
            nf: r.nf.unwrap_or([0; 32]),
            position: r.position.unwrap_or(u64::MAX),
            mined_height: r.mined_height.unwrap(),
            internal: r.scope == Some(1),
            spent_by_mined: r.spent_by_mined,
        })
        .collect::<BTreeSet<_>>()
        .into_iter()
        .collect();
    let want = ledger.mined_rows(&chain);
    if got != want {
        let g: BTreeSet<_> = got.iter().collect();
        let ws: BTreeSet<_> = want.iter().collect();
        vfail!(
            "batched-rows-mismatch",
            "rows written by the batched scan (RAYON_NUM_THREADS={:?}) differ from the model; only in wallet: {:?}; only in model: {:?}",
            std::env::var("RAYON_NUM_THREADS").ok(),
            g.difference(&ws).take(3).collect::<Vec<_>>(),
            ws.difference(&g).take(3).collect::<Vec<_>>()
        );
    }
    let outputs: usize = chain.blocks.iter().map(|b| b.commitments.iter().map(|c| c.len()).sum::<usize>()).max().unwrap_or(0);
    Ok(Obs::new(!want.is_empty())
        .label_if(outputs > 100, "block>100-outputs")
        .label_if(big > 0, "big-block")
        .label_if(case.chunk == 1, "one-block-batches")
        .count("wallet-rows", want.len() as u64))
}

fn main() {
    chainsim::init_sqlite();
    let ctx = Ctx::from_args("C05", "exploration");
    let tier = ctx.tier;

    if let Ok(threads) = std::env::var("VERIF_CHILD") {
        // child: only the batched sub-check, rayon pool size comes from RAYON_NUM_THREADS
        let sub = format!("batched-wallet-threads-{threads}");
        let quota: u64 = std::env::var("VERIF_CHILD_CASES").ok().and_then(|s| s.parse().ok()).unwrap_or(64);
        ctx.run_prop_with(&sub, arb_batch_case, quota, 40, run_batched);
        ctx.finish();
    }

    ctx.set_rule(
        "exactness: proptest worlds (1-3 accounts x external/diversified/internal, foreign keys, optional Ironwood) and chains of 2..N blocks with up to \
         M transactions of up to K items (receipts in 3 pools, spends of tracked/untracked/unknown nullifiers), scanned from a generated start block with or \
         without prior metadata; every field of every ScannedBlock is compared with the model. rejection: the last block gets one generated corruption. \
         batched: chains incl. blocks with 80..260 extra outputs scanned through scan_cached_blocks in child processes with RAYON_NUM_THREADS in {1,2,5}. \
         Non-trivial = a wallet output at output index >= 1 of a transaction at index >= 1, or a tracked spend, or a corruption of a valid block, or a batched \
         chain with wallet rows; distinct = hash of the case.",
    );
    ctx.assume("CompactBlock::{hash,prev_hash,height} document their own panics (32-byte hashes, u32 height); the generator keeps those three well-formed");
    ctx.assume("thread interleavings are varied by pool size and block shape, not enumerated (DESIGN.md section 6)");

    ctx.run_prop_with("exact-small", || arb_case(5, 3, 5), tier.pick(3_000, 60_000), 400, run_exact);
    ctx.require_label_fraction("exact-small", "wallet-output-at-tx>=1,index>=1", 0.2);
    ctx.require_label_fraction("exact-small", "tracked-spend", 0.2);
    ctx.require_label_fraction("exact-small", "internal-scope", 0.2);
    ctx.run_prop_with("exact-busy", || arb_case(4, 12, 8), tier.pick(400, 8_000), 200, run_exact);
    {
        let c2 = ctx.clone();
        ctx.run_prop_with("rejection", || (arb_case(4, 3, 5), arb_corruption()), tier.pick(1_600, 40_000), 300, move |c| run_reject(&c2, c));
    }
    for class in ["height", "prev-hash", "tree-size", "tree-size-unknown", "field-len:sapling-cmu", "field-len:orchard-nullifier", "non-canonical:orchard-cmx", "field-len:txid", "tx-index-out-of-range"] {
        ctx.require_min_count("rejection", class, 10);
    }

    // schedule independence: children with different rayon pool sizes
    if !ctx.is_replay() && !ctx.violated() {
        let exe = std::env::current_exe().expect("current_exe");
        for threads in ["1", "2", "5"] {
            let t0 = std::time::Instant::now();
            let out = std::process::Command::new(&exe)
                .arg(tier.name())
                .env("VERIF_CHILD", threads)
                .env("RAYON_NUM_THREADS", threads)
                .env("VERIF_CHILD_CASES", tier.pick("96", "2000"))
                .output()
                .expect("spawn child");
            let stdout = String::from_utf8_lossy(&out.stdout);
            let sub = format!("batched-wallet-threads-{threads}");
            let mut got_summary = false;
            for line in stdout.lines() {
                if let Some(rest) = line.strip_prefix("VIOLATION property=C05 replay=") {
                    ctx.external_violation(&sub, std::path::Path::new(rest.trim()), "batched scan differs from the model (see replay file; re-run with RAYON_NUM_THREADS set)");
                } else if line.starts_with("KNOWN-FINDING") {
                    println!("{line}");
                } else if let Some(js) = line.strip_prefix("CHILD-SUMMARY ") {
                    if let Ok(v) = serde_json::from_str::<serde_json::Value>(js) {
                        got_summary = true;
                        let cov = &v["coverage"];
                        let mut counters = BTreeMap::new();
                        if let Some(l) = cov["labels"].as_object() {
                            for (k, n) in l {
                                counters.insert(k.rsplit('/').next().unwrap_or(k).to_string(), n.as_u64().unwrap_or(0));
                            }
                        }
                        let samples: Vec<String> = cov["samples"].as_array().map(|a| a.iter().take(1).map(|s| s["case"].as_str().unwrap_or("").to_string()).collect()).unwrap_or_default();
                        ctx.external_sub(&sub, "proptest (child process)", cov["evaluations"].as_u64().unwrap_or(0), cov["distinct_nontrivial"].as_u64().unwrap_or(0), samples, counters, t0.elapsed().as_secs_f64());
                        println!("  [C05] {sub}: {} evaluations, {} distinct non-trivial in {:.1}s", cov["evaluations"], cov["distinct_nontrivial"], t0.elapsed().as_secs_f64());
                    }
                }
            }
            if !got_summary && !ctx.violated() {
                println!("INCONCLUSIVE property=C05 child with RAYON_NUM_THREADS={threads} ended without a summary (status {:?})", out.status.code());
                println!("{}", String::from_utf8_lossy(&out.stderr).lines().rev().take(10).collect::<Vec<_>>().join("\n"));
                std::process::exit(2);
            }
        }
    }
    // coverage-guided byte-level campaign (libFuzzer target `compact_block_scan`, oracle inside the target)
    ctx.run_fuzz("compact_block_scan", ctx.tier.pick(120_000, 5_000_000), ctx.tier.pick(4, 16), 4096);
    ctx.finish();
}

//! C01 — Wallet balance is exactly the ledger of its unspent notes, in any scan order.
//!
//! Model-based: a generated history (block arrivals, scans of arbitrary ranges in any order with
//! repeats, tip updates, truncations with and without a chain reorganisation) is applied to a real
//! SQLite wallet and to the model ledger (chainsim::Ledger); after EVERY step the wallet's summary
//! and its received-note rows are compared with the model; at the end everything is scanned and
//! the wallet is compared with a fresh wallet that scans the final chain once in height order.

use std::collections::BTreeSet;

use chainsim::*;
use vcore::{vensure, vensure_eq, vfail, CaseResult, Ctx, Fail, Obs};

#[derive(Default)]
struct Stats {
    live_orphan_states: u32,
    summaries: u32,
    no_summary: u32,
}

fn check_state(w: &SimWallet, chain: &Chain, ledger: &Ledger, f: &mut Stats, step: &str) -> Result<(), Fail> {
    // (a) balances
    let tip = w.chain_height();
    match w.balances().map_err(|e| Fail::new("summary-error", format!("{step}: get_wallet_summary failed: {e}")))? {
        None => f.no_summary += 1,
        Some(got) => {
            let tip = tip.ok_or_else(|| Fail::new("summary-without-tip", format!("{step}: summary present but chain_height() is None")))?;
            f.summaries += 1;
            let mut want = ledger.balances(chain, tip);
            want.retain(|_, b| b.total > 0);
            if ledger.has_live_orphans(chain, tip) {
                f.live_orphan_states += 1;
            }
            if got != want {
                vfail!(
                    "balance-mismatch",
                    "{step}: wallet balances {got:?} != model ledger {want:?} (tip {tip}, live orphans: {})",
                    ledger.has_live_orphans(chain, tip)
                );
            }
        }
    }
    // rows of mined notes
    let rows = w.note_rows();
    let mut seen_nf = BTreeSet::new();
    let mut seen_out = BTreeSet::new();
    for r in &rows {
        if let Some(nf) = r.nf {
            vensure!(seen_nf.insert((r.pool, nf)), "duplicate-nullifier-row", "{step}: nullifier stored twice: {r:?}");
        }
        vensure!(seen_out.insert((r.pool, r.txid, r.out_index)), "duplicate-output-row", "{step}: output stored twice: {r:?}");
    }
    let got: Vec<ModelNoteRow> = rows
        .iter()
        .filter(|r| r.mined_height.is_some())
        .map(|r| ModelNoteRow {
            pool: r.pool,
            account: r.account,
            txid: r.txid,
            out_index: r.out_index,
            value: r.value,
            nf: r.nf.unwrap_or([0; 32]),
            position: r.position.unwrap_or(u64::MAX),
            mined_height: r.mined_height.unwrap(),
            internal: r.scope == Some(1),
            spent_by_mined: r.spent_by_mined.clone(),
        })
        .collect::<BTreeSet<_>>()
        .into_iter()
        .collect();
    let want = ledger.mined_rows(chain);
    if got != want {
        let g: BTreeSet<_> = got.iter().collect();
        let wset: BTreeSet<_> = want.iter().collect();
        let extra: Vec<_> = g.difference(&wset).take(3).collect();
        let missing: Vec<_> = wset.difference(&g).take(3).collect();
        vfail!("mined-rows-mismatch", "{step}: wallet rows differ from model; only in wallet: {extra:?}; only in model: {missing:?}");
    }
    Ok(())
}

fn run_case(case: &Case) -> CaseResult {
    match run_case_inner(case) {
        // C01 says nothing about scans succeeding; the known tree conflict (listed under C06) is
        // excluded here by construction and counted.
        Err(f) if f.signature == SIG_TREE_CONFLICT => Ok(Obs::trivial().label("excluded-known:tree-conflict-after-rewind")),
        // likewise the known stale-subtree-root finding (C06): the sync round cannot start any more
        Err(f) if f.signature == SIG_STALE_SUBTREE_ROOT => Ok(Obs::trivial().label("excluded-known:stale-subtree-root-after-reorg")),
        // and the known stale checkpoints left by truncate_to_chain_state (C06): later scans may hit a checkpoint conflict
        Err(f) if f.signature == SIG_STALE_CHECKPOINT => Ok(Obs::trivial().label("excluded-known:chain-state-truncation-keeps-checkpoints")),
        r => r,
    }
}

fn run_case_inner(case: &Case) -> CaseResult {
    let mut h = Hist::new(&case.world, false);
    let mut st = Stats::default();
    for (i, op) in case.ops.iter().enumerate() {
        let step = step_name(i, op);
        h.apply(op, &step)?;
        check_state(&h.w, &h.chain, &h.ledger, &mut st, &step)?;
    }

    // Final: scan every remaining gap, then compare with a fresh linear wallet.
    let tip = h.chain.tip_height();
    let base = h.base();
    if tip > base {
        h.scan_all(case.final_chunk)?;
        check_state(&h.w, &h.chain, &h.ledger, &mut st, "final")?;

        let mut fresh = SimWallet::new(&h.world, &h.chain, false);
        fresh.update_tip(tip).map_err(|e| Fail::new("update-tip-failed", format!("fresh: {e}")))?;
        let mut at = base + 1;
        while at <= tip {
            let len = 1000.min(tip + 1 - at);
            fresh.scan(&h.world, &h.chain, at, len).map_err(|e| Fail::new("fresh-scan-failed", format!("fresh wallet scan failed: {e:?}")))?;
            at += len;
        }
        type Row = (Pool, u8, [u8; 32], u32, u64, Option<[u8; 32]>, Option<u64>, Option<u32>, Option<i64>, Vec<[u8; 32]>);
        let mined = |w: &SimWallet| -> Vec<Row> {
            w.note_rows()
                .into_iter()
                .filter(|r| r.mined_height.is_some())
                .map(|r| (r.pool, r.account, r.txid, r.out_index, r.value, r.nf, r.position, r.mined_height, r.scope, r.spent_by_mined))
                .collect()
        };
        let a = mined(&h.w);
        let b = mined(&fresh);
        if a != b {
            let sa: BTreeSet<_> = a.iter().collect();
            let sb: BTreeSet<_> = b.iter().collect();
            vfail!(
                "differs-from-linear-wallet",
                "after scanning everything, mined notes differ from a fresh linear wallet; only in history wallet: {:?}; only in fresh wallet: {:?}",
                sa.difference(&sb).take(3).collect::<Vec<_>>(),
                sb.difference(&sa).take(3).collect::<Vec<_>>()
            );
        }
        if !h.ledger.has_live_orphans(&h.chain, tip) {
            let ba = h.w.balances().map_err(|e| Fail::new("summary-error", e))?;
            let bb = fresh.balances().map_err(|e| Fail::new("summary-error", e))?;
            vensure_eq!(ba, bb, "balance-differs-from-linear-wallet", "balances after full scan vs fresh linear wallet");
        }
    }

    let f = &h.flags;
    let wallet_notes = h.ledger.known_notes.len();
    let deep = h.chain.tip_height() - base > 100;
    let nontrivial = wallet_notes > 0 && (f.out_of_order || f.repeated || f.spend_before_receipt || f.rewind_removed_wallet_tx || f.big_batch);
    Ok(Obs::new(nontrivial)
        .label_if(wallet_notes > 0, "has-wallet-notes")
        .label_if(f.out_of_order, "out-of-order")
        .label_if(f.repeated, "repeated-range")
        .label_if(f.spend_before_receipt, "spend-before-receipt")
        .label_if(f.rewind_removed_wallet_tx, "rewind-removes-wallet-tx")
        .label_if(f.big_batch, "batch>102")
        .label_if(h.chain.base_sizes != [0, 0, 0], "non-empty-birthday-frontier")
        .label_if(h.chain.crossed_shard_boundary(), "shard-boundary-crossed")
        .label_if(h.flags.subtree_roots_put > 0, "subtree-roots-put")
        .label_if(h.flags.remined_txs > 0, "wallet-tx-mined-again-after-reorg")
        .label_if(h.flags.chain_state_truncations > 0, "truncate-to-chain-state")
        .label_if(h.flags.chain_state_truncations_below_request > 0, "observation:chain-state-truncation-dropped-below-request")
        .label_if(f.early_spend_in_big_out_of_order_batch, "batch>102-above-gap-with-early-spend-of-gap-note")
        .label_if(deep, "chain>100")
        .label_if(st.live_orphan_states > 0, "live-orphan-state")
        .label_if(f.truncate_refused > 0, "truncate-refused")
        .label_if(f.expiry_probes > 0, "orphan-expiry-boundary-probed")
        .label_if(case.world.nu6_3_offset.is_some(), "ironwood-world")
        .count("summaries-compared", st.summaries as u64)
        .count("states-without-summary", st.no_summary as u64)
        .count("live-orphan-states", st.live_orphan_states as u64)
        .count("wallet-notes", wallet_notes as u64))
}

fn main() {
    chainsim::init_sqlite();
    let ctx = Ctx::from_args("C01", "exploration");
    ctx.set_rule(
        "proptest histories: world (1-3 accounts, foreign keys, optional Ironwood activation) + 3..N ops \
         (add generated blocks with receipts/spends in 3 pools, add empty blocks, update tip, scan arbitrary ranges, \
         scan a gap from either end, truncate with/without reorg). After every op the wallet summary (total+uneconomic per \
         account and pool, uneconomic bucket separately) and the mined-note rows are compared with the model ledger; at the \
         end all gaps are scanned and the wallet is compared with a fresh linear wallet. Non-trivial = history with >=1 wallet \
         note and (out-of-order scan | repeated range | spend scanned before receipt | rewind removing a wallet tx | batch > 102 \
         blocks); distinct = hash of the whole case.",
    );
    ctx.assume("model expiry rule = documented tx_unexpired_condition: un-mined tx with unknown expiry counts while first-observed height + 40 >= tip + 1");
    ctx.assume("a note is never spent in the block that creates it (anchors refer to earlier blocks), so the generator does not produce that");
    ctx.assume("the client calls update_chain_tip before scanning and truncates before scanning a different continuation (documented flow)");
    let tier = ctx.tier;
    ctx.run_prop_with("histories", || arb_case_opts(22, 12, true), tier.pick(1_200, 20_000), 80, run_case);
    ctx.require_label_fraction("histories", "out-of-order", 0.25);
    ctx.require_label_fraction("histories", "rewind-removes-wallet-tx", 0.10);
    ctx.require_label_fraction("histories", "spend-before-receipt", 0.05);
    ctx.require_label_fraction("histories", "orphan-expiry-boundary-probed", 0.04);
    ctx.run_prop_with("long-chains", || arb_case_opts(14, 100, true), tier.pick(256, 4_000), 60, run_case);
    ctx.require_label_fraction("long-chains", "chain>100", 0.5);
    ctx.require_label_fraction("long-chains", "batch>102", 0.1);
    // unshielded balances vs a model of the transparent coins the wallet was told about (c01_transparent.rs)
    transparent::run(&ctx);
    ctx.finish();
}

#[path = "c01_transparent.rs"]
mod transparent;

//! C01 — Wallet balance is exactly the ledger of its unspent notes, in any scan order.
//!
//! Model-based: a generated history (block arrivals, scans of arbitrary ranges in any order with
//! repeats, tip updates, truncations with and without a chain reorganisation) is applied to a real
//! SQLite wallet and to the model ledger (chainsim::Ledger); after EVERY step the wallet's summary
//! and its received-note rows are compared with the model; at the end everything is scanned and
//! the wallet is compared with a fresh wallet that scans the final chain once in height order.

use std::collections::BTreeSet;

use chainsim::*;
use proptest::prelude::*;
use vcore::{vensure, vensure_eq, vfail, CaseResult, Ctx, Fail, Obs};

#[derive(Clone, Debug)]
enum Op {
    /// extend the current branch
    AddBlocks(Vec<BlockSpec>),
    /// extend the current branch with n empty blocks
    AddEmpty(u16),
    /// tell the wallet the chain tip (model tip minus `behind`, clipped)
    UpdateTip { behind: u8 },
    /// scan [from, from+len) where from = base+1 + pick(sel, tip-base)
    Scan { sel: u32, len: u16 },
    /// scan the first unscanned gap from its start or its end, `chunk` blocks
    ScanGap { which: u32, from_end: bool, chunk: u16 },
    /// rewind the wallet to (max scanned or tip) - depth; `reorg` = the chain abandons the blocks
    /// above the height the wallet actually rewound to, else the chain keeps them (forget+rescan)
    Truncate { depth: u8, reorg: bool },
}

fn arb_op(na: u8, nf: u8, iw: bool, long: bool) -> impl Strategy<Value = Op> {
    prop_oneof![
        5 => proptest::collection::vec(arb_block(na, nf, iw, 3, 4), 1..6).prop_map(Op::AddBlocks),
        if long { 3 } else { 1 } => (if long { 1u16..130 } else { 1u16..12 }).prop_map(Op::AddEmpty),
        2 => (0u8..3).prop_map(|behind| Op::UpdateTip { behind }),
        6 => (any::<u32>(), if long { 1u16..160 } else { 1u16..12 }).prop_map(|(sel, len)| Op::Scan { sel, len }),
        5 => (any::<u32>(), any::<bool>(), if long { 1u16..160 } else { 1u16..10 }).prop_map(|(which, from_end, chunk)| Op::ScanGap { which, from_end, chunk }),
        2 => (0u8..8, any::<bool>()).prop_map(|(depth, reorg)| Op::Truncate { depth, reorg }),
    ]
}

#[derive(Clone, Debug)]
struct Case {
    world: WorldSpec,
    long: bool,
    ops: Vec<Op>,
    final_chunk: u16,
}

fn arb_case(max_ops: usize, p_long: u32) -> impl Strategy<Value = Case> {
    (arb_world(), prop::bool::weighted(p_long as f64 / 100.0), 1u16..200).prop_flat_map(move |(world, long, final_chunk)| {
        let iw = world.nu6_3_offset.is_some();
        let (na, nf) = (world.n_accounts, world.n_foreign);
        // long mode: receipts, then > 100 empty blocks, then spends, so that the nullifier-tracking floor
        // (batch > 102 blocks extending the fully-scanned frontier) and nullifier pruning at depth 100 engage
        let prefix = if long {
            (
                proptest::collection::vec(arb_block(na, nf, iw, 3, 4), 1..4),
                101u16..150,
                proptest::collection::vec(arb_block(na, nf, iw, 3, 4), 1..4),
            )
                .prop_map(|(a, n, b)| vec![Op::AddBlocks(a), Op::AddEmpty(n), Op::AddBlocks(b)])
                .boxed()
        } else {
            Just(vec![]).boxed()
        };
        (prefix, proptest::collection::vec(arb_op(na, nf, iw, long), 3..max_ops)).prop_map(move |(mut pre, ops)| {
            pre.extend(ops);
            Case { world: world.clone(), long, ops: pre, final_chunk }
        })
    })
}

struct Flags {
    out_of_order: bool,
    repeated: bool,
    spend_before_receipt: bool,
    rewind_removed_wallet_tx: bool,
    big_batch: bool,
    wallet_notes: usize,
    live_orphan_states: u32,
    summaries: u32,
    no_summary: u32,
    truncate_refused: u32,
    deep: bool,
}

fn gaps(chain: &Chain, ledger: &Ledger) -> Vec<(u32, u32)> {
    // maximal unscanned ranges [start, end] on the current branch
    let mut out = vec![];
    let mut cur: Option<(u32, u32)> = None;
    for h in chain.base_height + 1..=chain.tip_height() {
        if ledger.is_scanned_height(chain, h) {
            if let Some(g) = cur.take() {
                out.push(g);
            }
        } else {
            cur = Some(match cur {
                None => (h, h),
                Some((s, _)) => (s, h),
            });
        }
    }
    if let Some(g) = cur {
        out.push(g);
    }
    out
}

fn check_state(w: &SimWallet, chain: &Chain, ledger: &Ledger, f: &mut Flags, step: &str) -> Result<(), Fail> {
    // (a) balances
    let tip = w.chain_height();
    match w.balances().map_err(|e| Fail::new("summary-error", format!("{step}: get_wallet_summary failed: {e}")))? {
        None => f.no_summary += 1,
        Some(got) => {
            let tip = tip.ok_or_else(|| Fail::new("summary-without-tip", format!("{step}: summary present but chain_height() is None")))?;
            f.summaries += 1;
            let mut want = ledger.balances(chain, tip);
            want.retain(|_, b| b.total > 0);
            if ledger.has_live_orphans(chain, tip) {
                f.live_orphan_states += 1;
            }
            if got != want {
                vfail!(
                    "balance-mismatch",
                    "{step}: wallet balances {got:?} != model ledger {want:?} (tip {tip}, live orphans: {})",
                    ledger.has_live_orphans(chain, tip)
                );
            }
        }
    }
    // rows of mined notes
    let rows = w.note_rows();
    let mut seen_nf = BTreeSet::new();
    let mut seen_out = BTreeSet::new();
    for r in &rows {
        if let Some(nf) = r.nf {
            vensure!(seen_nf.insert((r.pool, nf)), "duplicate-nullifier-row", "{step}: nullifier stored twice: {r:?}");
        }
        vensure!(seen_out.insert((r.pool, r.txid, r.out_index)), "duplicate-output-row", "{step}: output stored twice: {r:?}");
    }
    let got: Vec<ModelNoteRow> = rows
        .iter()
        .filter(|r| r.mined_height.is_some())
        .map(|r| ModelNoteRow {
            pool: r.pool,
            account: r.account,
            txid: r.txid,
            out_index: r.out_index,
            value: r.value,
            nf: r.nf.unwrap_or([0; 32]),
            position: r.position.unwrap_or(u64::MAX),
            mined_height: r.mined_height.unwrap(),
            internal: r.scope == Some(1),
            spent_by_mined: r.spent_by_mined.clone(),
        })
        .collect::<BTreeSet<_>>()
        .into_iter()
        .collect();
    let want = ledger.mined_rows(chain);
    if got != want {
        let g: BTreeSet<_> = got.iter().collect();
        let wset: BTreeSet<_> = want.iter().collect();
        let extra: Vec<_> = g.difference(&wset).take(3).collect();
        let missing: Vec<_> = wset.difference(&g).take(3).collect();
        vfail!("mined-rows-mismatch", "{step}: wallet rows differ from model; only in wallet: {extra:?}; only in model: {missing:?}");
    }
    Ok(())
}

fn run_case(case: &Case) -> CaseResult {
    match run_case_inner(case) {
        Err(f) if f.signature == "excluded-tree-conflict" => Ok(Obs::trivial().label("excluded-known:tree-conflict-after-rewind")),
        r => r,
    }
}

fn run_case_inner(case: &Case) -> CaseResult {
    let world = World::new(&case.world);
    let mut chain = Chain::new(&world);
    let mut w = SimWallet::new(&world, &chain, false);
    let mut ledger = Ledger::default();
    let mut f = Flags {
        out_of_order: false,
        repeated: false,
        spend_before_receipt: false,
        rewind_removed_wallet_tx: false,
        big_batch: false,
        wallet_notes: 0,
        live_orphan_states: 0,
        summaries: 0,
        no_summary: 0,
        truncate_refused: 0,
        deep: false,
    };
    let mut max_scanned_start: Option<u32> = None;
    let base = chain.base_height;

    let do_scan = |w: &mut SimWallet, chain: &Chain, ledger: &mut Ledger, f: &mut Flags, from: u32, len: u32, max_start: &mut Option<u32>, step: &str| -> Result<(), Fail> {
        let len = len.min(chain.tip_height() + 1 - from);
        if len == 0 {
            return Ok(());
        }
        // classification before the scan
        if let Some(m) = *max_start {
            if from < m {
                f.out_of_order = true;
            }
        }
        *max_start = Some(max_start.map_or(from, |m| m.max(from)));
        let mut all_scanned = true;
        for h in from..from + len {
            if !ledger.is_scanned_height(chain, h) {
                all_scanned = false;
            } else {
                f.repeated = true;
            }
            // spend scanned before receipt?
            if let Some(b) = chain.block_at(h) {
                for tx in &b.txs {
                    for s in &tx.spends {
                        if let Some(n) = s.note {
                            let note = &chain.notes[n];
                            if matches!(note.who, Who::Wallet(_)) && !ledger.scanned.contains(&note.block_id) && !(from..from + len).contains(&note.height) {
                                f.spend_before_receipt = true;
                            }
                        }
                    }
                }
            }
        }
        let _ = all_scanned;
        if len > 102 {
            f.big_batch = true;
        }
        match w.scan(&world, chain, from, len) {
            Ok(_) => {
                ledger.scan(chain, from, len);
                Ok(())
            }
            Err(e) => {
                let m = format!("{e:?}");
                // Known finding (listed under C06, where it belongs): after a rewind below the start of a
                // range that was scanned out of order, shardtree keeps a stale cached parent hash and
                // the insertion of the new branch's frontier reports a Conflict. C01 says nothing about
                // scans succeeding, so the case is excluded here (counted) rather than reported.
                let sig = if m.contains("PutBlocksCommitmentTree") && m.contains("Conflict") { "excluded-tree-conflict" } else { "scan-failed" };
                Err(Fail::new(sig, format!("{step}: scanning [{from}, {}) of a consistent chain failed: {m}", from + len)))
            }
        }
    };

    for (i, op) in case.ops.iter().enumerate() {
        let step = format!("op#{i} {op:?}");
        let step = if step.len() > 160 { format!("{}…", &step[..160]) } else { step };
        match op {
            Op::AddBlocks(specs) => {
                for s in specs {
                    chain.add_block(&world, s);
                }
            }
            Op::AddEmpty(n) => {
                for _ in 0..*n {
                    chain.add_block(&world, &BlockSpec::default());
                }
            }
            Op::UpdateTip { behind } => {
                let tip = chain.tip_height();
                if tip > base {
                    // never below what the wallet has scanned (the tip only moves back by truncation)
                    let max_scanned = ledger.scanned.iter().map(|b| chain.blocks[*b].height).max().unwrap_or(base);
                    let h = tip.saturating_sub(*behind as u32).max(max_scanned).max(base + 1);
                    w.update_tip(h).map_err(|e| Fail::new("update-tip-failed", format!("{step}: {e}")))?;
                }
            }
            Op::Scan { sel, len } => {
                let tip = chain.tip_height();
                if tip > base {
                    // the documented flow: the wallet knows the tip before it scans
                    if w.chain_height().map_or(true, |t| t < tip) {
                        w.update_tip(tip).map_err(|e| Fail::new("update-tip-failed", format!("{step}: {e}")))?;
                    }
                    let from = base + 1 + vcore::pick_index(*sel, (tip - base) as usize) as u32;
                    do_scan(&mut w, &chain, &mut ledger, &mut f, from, *len as u32, &mut max_scanned_start, &step)?;
                }
            }
            Op::ScanGap { which, from_end, chunk } => {
                let tip = chain.tip_height();
                let g = gaps(&chain, &ledger);
                if !g.is_empty() {
                    if w.chain_height().map_or(true, |t| t < tip) {
                        w.update_tip(tip).map_err(|e| Fail::new("update-tip-failed", format!("{step}: {e}")))?;
                    }
                    let (s, e) = g[vcore::pick_index(*which, g.len())];
                    let chunk = (*chunk as u32).min(e - s + 1);
                    let from = if *from_end { e + 1 - chunk } else { s };
                    do_scan(&mut w, &chain, &mut ledger, &mut f, from, chunk, &mut max_scanned_start, &step)?;
                }
            }
            Op::Truncate { depth, reorg } => {
                let max_scanned = ledger.scanned.iter().map(|b| chain.blocks[*b].height).max();
                let top = max_scanned.unwrap_or(chain.tip_height()).max(base);
                let h = top.saturating_sub(*depth as u32).max(base);
                let tr = w.truncate(h);
                if std::env::var("VERIF_DEBUG").is_ok() {
                    eprintln!("[debug] truncate({h}) -> {tr:?}");
                }
                match tr {
                    Ok(got) => {
                        vensure!(got <= h, "truncate-above-request", "{step}: truncate_to_height({h}) returned {got}");
                        // wallet tx removed?
                        let removed_wallet_tx = ledger.scanned.iter().any(|b| {
                            let blk = &chain.blocks[*b];
                            blk.height > got && blk.txs.iter().any(|t| t.recv.iter().any(|n| matches!(chain.notes[*n].who, Who::Wallet(_))) || t.spends.iter().any(|s| s.note.is_some()))
                        });
                        if removed_wallet_tx {
                            f.rewind_removed_wallet_tx = true;
                        }
                        ledger.truncate(&chain, got);
                        if *reorg {
                            chain.fork_at(got);
                        }
                        max_scanned_start = ledger.scanned.iter().map(|b| chain.blocks[*b].height).max();
                    }
                    Err(_) => {
                        // documented refusals (RequestedRewindInvalid etc.): a no-op for the model
                        f.truncate_refused += 1;
                    }
                }
            }
        }
        if std::env::var("VERIF_DEBUG").is_ok() {
            let sc: Vec<u32> = ledger.scanned.iter().map(|b| chain.blocks[*b].height).collect();
            eprintln!("[debug] {step}\n        tip={} wallet_tip={:?} scanned={:?} sizes@tip={:?}", chain.tip_height(), w.chain_height(), sc, chain.sizes_at(chain.tip_height()));
        }
        check_state(&w, &chain, &ledger, &mut f, &step)?;
    }

    // Final: scan every remaining gap, then compare with a fresh linear wallet.
    let tip = chain.tip_height();
    if tip > base {
        w.update_tip(tip).map_err(|e| Fail::new("update-tip-failed", format!("final: {e}")))?;
        let mut guard = 0;
        loop {
            let g = gaps(&chain, &ledger);
            let Some((s, e)) = g.first().copied() else { break };
            let chunk = (case.final_chunk as u32).min(e - s + 1);
            do_scan(&mut w, &chain, &mut ledger, &mut f, s, chunk, &mut max_scanned_start, "final-scan")?;
            guard += 1;
            if guard > 10_000 {
                vfail!("harness-final-loop", "final scan loop did not terminate");
            }
        }
        check_state(&w, &chain, &ledger, &mut f, "final")?;

        let mut fresh = SimWallet::new(&world, &chain, false);
        fresh.update_tip(tip).map_err(|e| Fail::new("update-tip-failed", format!("fresh: {e}")))?;
        let mut h = base + 1;
        while h <= tip {
            let len = 1000.min(tip + 1 - h);
            fresh.scan(&world, &chain, h, len).map_err(|e| Fail::new("fresh-scan-failed", format!("fresh wallet scan failed: {e:?}")))?;
            h += len;
        }
        let mined = |w: &SimWallet| -> Vec<(Pool, u8, [u8; 32], u32, u64, Option<[u8; 32]>, Option<u64>, Option<u32>, Option<i64>, Vec<[u8; 32]>)> {
            w.note_rows()
                .into_iter()
                .filter(|r| r.mined_height.is_some())
                .map(|r| (r.pool, r.account, r.txid, r.out_index, r.value, r.nf, r.position, r.mined_height, r.scope, r.spent_by_mined))
                .collect()
        };
        let a = mined(&w);
        let b = mined(&fresh);
        if a != b {
            let sa: BTreeSet<_> = a.iter().collect();
            let sb: BTreeSet<_> = b.iter().collect();
            vfail!(
                "differs-from-linear-wallet",
                "after scanning everything, mined notes differ from a fresh linear wallet; only in history wallet: {:?}; only in fresh wallet: {:?}",
                sa.difference(&sb).take(3).collect::<Vec<_>>(),
                sb.difference(&sa).take(3).collect::<Vec<_>>()
            );
        }
        if !ledger.has_live_orphans(&chain, tip) {
            let ba = w.balances().map_err(|e| Fail::new("summary-error", e))?;
            let bb = fresh.balances().map_err(|e| Fail::new("summary-error", e))?;
            vensure_eq!(ba, bb, "balance-differs-from-linear-wallet", "balances after full scan vs fresh linear wallet");
        }
    }

    f.wallet_notes = ledger.known_notes.len();
    f.deep = chain.tip_height() - base > 100;
    let nontrivial = f.wallet_notes > 0 && (f.out_of_order || f.repeated || f.spend_before_receipt || f.rewind_removed_wallet_tx || f.big_batch);
    Ok(Obs::new(nontrivial)
        .label_if(f.wallet_notes > 0, "has-wallet-notes")
        .label_if(f.out_of_order, "out-of-order")
        .label_if(f.repeated, "repeated-range")
        .label_if(f.spend_before_receipt, "spend-before-receipt")
        .label_if(f.rewind_removed_wallet_tx, "rewind-removes-wallet-tx")
        .label_if(f.big_batch, "batch>102")
        .label_if(f.deep, "chain>100")
        .label_if(f.live_orphan_states > 0, "live-orphan-state")
        .label_if(f.truncate_refused > 0, "truncate-refused")
        .label_if(case.world.nu6_3_offset.is_some(), "ironwood-world")
        .count("summaries-compared", f.summaries as u64)
        .count("states-without-summary", f.no_summary as u64)
        .count("live-orphan-states", f.live_orphan_states as u64)
        .count("wallet-notes", f.wallet_notes as u64))
}

fn main() {
    chainsim::init_sqlite();
    let ctx = Ctx::from_args("C01", "exploration");
    ctx.set_rule(
        "proptest histories: world (1-3 accounts, foreign keys, optional Ironwood activation) + 3..N ops \
         (add generated blocks with receipts/spends in 3 pools, add empty blocks, update tip, scan arbitrary ranges, \
         scan a gap from either end, truncate with/without reorg). After every op the wallet summary (total+uneconomic per \
         account and pool, uneconomic bucket separately) and the mined-note rows are compared with the model ledger; at the \
         end all gaps are scanned and the wallet is compared with a fresh linear wallet. Non-trivial = history with >=1 wallet \
         note and (out-of-order scan | repeated range | spend scanned before receipt | rewind removing a wallet tx | batch > 102 \
         blocks); distinct = hash of the whole case.",
    );
    ctx.assume("model expiry rule = documented tx_unexpired_condition: un-mined tx with unknown expiry counts while first-observed height + 40 >= tip + 1");
    ctx.assume("a note is never spent in the block that creates it (anchors refer to earlier blocks), so the generator does not produce that");
    ctx.assume("the client calls update_chain_tip before scanning and truncates before scanning a different continuation (documented flow)");
    let tier = ctx.tier;
    ctx.run_prop_with("histories", || arb_case(22, 12), tier.pick(480, 20_000), 80, run_case);
    ctx.require_label_fraction("histories", "out-of-order", 0.25);
    ctx.require_label_fraction("histories", "rewind-removes-wallet-tx", 0.10);
    ctx.require_label_fraction("histories", "spend-before-receipt", 0.05);
    ctx.run_prop_with("long-chains", || arb_case(14, 100), tier.pick(64, 3_000), 60, run_case);
    ctx.require_label_fraction("long-chains", "chain>100", 0.9);
    ctx.require_label_fraction("long-chains", "batch>102", 0.2);
    ctx.finish();
}

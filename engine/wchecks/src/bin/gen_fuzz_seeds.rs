//! Writes a small, reproducible seed corpus for every libFuzzer target into <out>/<target>/.
//! Usage: gen_fuzz_seeds <out-dir>
use std::path::Path;

use chainsim::*;
use prost::Message;
use proptest::strategy::{Strategy, ValueTree};
use proptest::test_runner::{Config, RngAlgorithm, TestRng, TestRunner};
use zcash_protocol::consensus::BranchId;

fn put(dir: &Path, target: &str, name: &str, bytes: &[u8]) {
    let d = dir.join(target);
    std::fs::create_dir_all(&d).unwrap();
    std::fs::write(d.join(name), bytes).unwrap();
}

fn pack_bits_be(indices: &[u32], bits: usize) -> Vec<u8> {
    let mut out = vec![];
    let mut acc: u64 = 0;
    let mut n = 0usize;
    for i in indices {
        acc = (acc << bits) | *i as u64;
        n += bits;
        while n >= 8 {
            out.push((acc >> (n - 8)) as u8);
            n -= 8;
            acc &= (1u64 << n) - 1;
        }
    }
    out
}

fn main() {
    let out = std::env::args().nth(1).expect("out dir");
    let out = Path::new(&out);
    let mut runner = TestRunner::new_with_rng(Config::default(), TestRng::from_seed(RngAlgorithm::ChaCha, &[42; 32]));

    // tx_read: one selector byte + a serialised transaction per branch
    let branches = [BranchId::Sprout, BranchId::Overwinter, BranchId::Sapling, BranchId::Blossom, BranchId::Heartwood, BranchId::Canopy, BranchId::Nu5, BranchId::Nu6, BranchId::Nu6_1, BranchId::Nu6_3];
    for (i, b) in branches.iter().enumerate() {
        for k in 0..3 {
            let tx = zcash_primitives::transaction::testing::arb_tx(*b).new_tree(&mut runner).unwrap().current();
            let mut v = vec![i as u8];
            tx.write(&mut v).unwrap();
            put(out, "tx_read", &format!("{b:?}-{k}"), &v);
        }
    }

    // block_header
    for (k, sol_len) in [(0usize, 1344usize), (1, 400), (2, 36)] {
        let h = zcash_primitives::block::BlockHeaderData {
            version: 4,
            prev_block: zcash_primitives::block::BlockHash([k as u8 + 1; 32]),
            merkle_root: [2; 32],
            final_sapling_root: [3; 32],
            time: 1_600_000_000,
            bits: 0x1f07ffff,
            nonce: [5; 32],
            solution: vec![7; sol_len],
        }
        .freeze()
        .unwrap();
        let mut v = vec![];
        h.write(&mut v).unwrap();
        put(out, "block_header", &format!("header-{k}"), &v);
    }

    // zaddr_parse: the world's own addresses in all encodings + ZIP 321 examples
    let spec = WorldSpec { seed: [11; 32], n_accounts: 1, n_foreign: 1, nu6_3_offset: Some(2), retention_interval: None, base: None };
    let world = World::new(&spec);
    let k = &world.accounts[0];
    {
        use zcash_keys::keys::UnifiedAddressRequest;
        let (ua, _) = k.ufvk.default_address(UnifiedAddressRequest::AllAvailableKeys).unwrap();
        let s = ua.encode(&world.net);
        put(out, "zaddr_parse", "ua", s.as_bytes());
        put(out, "zaddr_parse", "ufvk", k.ufvk.encode(&world.net).as_bytes());
        put(out, "zaddr_parse", "uivk", k.ufvk.to_unified_incoming_viewing_key().encode(&world.net).as_bytes());
        let sap = zcash_keys::encoding::encode_payment_address("zregtestsapling", &k.sapling.default_address().1);
        put(out, "zaddr_parse", "sapling", sap.as_bytes());
        put(out, "zaddr_parse", "p2pkh", b"t1Hsc1LR8yKnbbe3twRp88p6vFfC5t7DLbs");
        put(out, "zaddr_parse", "p2sh", b"t3Vz22vK5z2LcKEdg16Yv4FFneEL1zg9ojd");
        put(out, "zaddr_parse", "tex", b"tex1s2rt77ggv6q989lr49rkgzmh5slsksa9khdgte");
        put(out, "zaddr_parse", "zs-main", b"zs1z7rejlpsa98s2rrrfkwmaxu53e4ue0ulcrw0h4x5g8jl04tak0d3mm47vdtahatqrlkngh9sly");
        put(out, "zip321_uri", "ua-pay", format!("zcash:{s}?amount=1.5&memo=VGhpcyBpcyBhIHNpbXBsZSBtZW1vLg&message=Thank%20you").as_bytes());
    }
    put(out, "zip321_uri", "ex1", b"zcash:ztestsapling10yy2ex5dcqkclhc7z7yrnjq2z6feyjad56ptwlfgmy77dmaqqrl9gyhprdx59qgmsnyfska2kez?amount=1&memo=VGhpcyBpcyBhIHNpbXBsZSBtZW1vLg&message=Thank%20you%20for%20your%20purchase");
    put(out, "zip321_uri", "ex2", b"zcash:?address=tmEZhbWHTpdKMw5it8YDspUXSMGQyFwovpU&amount=123.456&address.1=ztestsapling10yy2ex5dcqkclhc7z7yrnjq2z6feyjad56ptwlfgmy77dmaqqrl9gyhprdx59qgmsnyfska2kez&amount.1=0.789&memo.1=VGhpcyBpcyBhIHVuaWNvZGUgbWVtbyDinKjwn6aE8J-PhvCfjok");
    put(out, "zip321_uri", "ex3", b"zcash:tmEZhbWHTpdKMw5it8YDspUXSMGQyFwovpU?amount=0.00000001&label=a%26b&other=1");

    // pczt_parse: an empty v5 and an empty v6 PCZT
    for (name, branch) in [("v5", u32::from(BranchId::Nu6)), ("v6", u32::from(BranchId::Nu6_3))] {
        if let Ok(c) = pczt::roles::creator::Creator::new(branch, 10_000, 133, Some([0; 32]), Some([0; 32])) {
            if let Ok(b) = c.build().and_then(|p| p.serialize().map_err(|_| pczt::roles::creator::Error::UnknownConsensusBranchId)) {
                put(out, "pczt_parse", name, &b);
            }
        }
    }

    // equihash_verify: [selector, input len, nonce len, input, nonce, solution]; selector 2 = (96,5)
    {
        let sol: [u32; 32] = [
            976, 126621, 100174, 123328, 38477, 105390, 38834, 90500, 6411, 116489, 51107, 129167, 25557, 92292, 38525, 56514, 1110, 98024, 15426, 74455, 3185, 84007, 24328, 36473, 17427, 129451,
            27556, 119967, 31704, 62448, 110460, 117894,
        ];
        let input = b"block header";
        let mut v = vec![2u8, input.len() as u8, 32];
        v.extend_from_slice(input);
        v.extend_from_slice(&[0; 32]);
        v.extend_from_slice(&pack_bits_be(&sol, 17));
        assert!(equihash::is_valid_solution(96, 5, input, &[0; 32], &pack_bits_be(&sol, 17)).is_ok(), "seed solution must be valid");
        put(out, "equihash_verify", "valid-96-5", &v);
    }

    // history_node: valid V1/V2/V3 node records (selector byte + record)
    {
        use zcash_history::{NodeData, Version, V1, V2, V3};
        let v1 = NodeData {
            consensus_branch_id: 0xc2d6d0b4,
            subtree_commitment: [1; 32],
            start_time: 10,
            end_time: 20,
            start_target: 30,
            end_target: 40,
            start_sapling_root: [2; 32],
            end_sapling_root: [3; 32],
            subtree_total_work: 700u64.into(),
            start_height: 100,
            end_height: 200,
            sapling_tx: 300,
        };
        let mut b = vec![0u8];
        V1::write(&v1, &mut b).unwrap();
        put(out, "history_node", "v1", &b);
        // V2/V3 records: reuse the V1 bytes under the other selectors plus zero extension fields
        for (sel, extra) in [(1u8, 32 + 32 + 1), (2u8, 32 + 32 + 1 + 32 + 32 + 1)] {
            let mut b = vec![sel];
            V1::write(&v1, &mut b).unwrap();
            b.extend(std::iter::repeat(0u8).take(extra));
            put(out, "history_node", &format!("v{}", sel + 1), &b);
        }
        let _ = std::marker::PhantomData::<V2>;
        let _ = std::marker::PhantomData::<V3>;
    }

    // compact_block_scan: protobuf-encoded blocks with outputs for the fuzz target's key (seed [7;32], account 0)
    {
        let spec = WorldSpec { seed: [7; 32], n_accounts: 1, n_foreign: 1, nu6_3_offset: Some(2), retention_interval: None, base: None };
        let world = World::new(&spec);
        let mut chain = Chain::new(&world);
        let recv = |pool, who| ItemSpec::Recv { pool, who, scope: ScopeSel::External, value: 50_000 };
        for i in 0..4 {
            let b = BlockSpec {
                txs: vec![
                    TxSpec { items: vec![recv(Pool::Sapling, Who::Wallet(0)), recv(Pool::Orchard, Who::Foreign(0))] },
                    TxSpec { items: vec![recv(Pool::Ironwood, Who::Wallet(0)), ItemSpec::SpendUnknown { pool: Pool::Sapling }] },
                ],
            };
            let id = chain.add_block(&world, &b);
            let mut cb = chain.blocks[id].cb.clone();
            cb.height = 100 + i as u64 * 11;
            put(out, "compact_block_scan", &format!("block-{i}"), &cb.encode_to_vec());
        }
    }
    println!("seeds written to {}", out.display());
}

fn main() { println!("wallet-group placeholder"); }

//! wallet-group checks (bins under src/bin)

//! Generated wallet histories and their interpreter, shared by C01, C06, C15 and C02.

use std::collections::BTreeMap;

use proptest::prelude::*;
use vcore::{vensure, Fail};

use crate::chain::*;
use crate::ledger::*;
use crate::spec::*;
use crate::wallet::*;

#[derive(Clone, Debug)]
pub enum Op {
    /// extend the current branch
    AddBlocks(Vec<BlockSpec>),
    /// extend the current branch with n empty blocks
    AddEmpty(u16),
    /// extend the current branch with n blocks that each hold one small output (so that every block
    /// is checkpointed and the 100-checkpoint budget is exceeded); `pool_sel`/`wallet_every` pick
    /// the pool and how often the output belongs to the wallet
    AddBusy { n: u16, pool_sel: u8, wallet_every: u8 },
    /// tell the wallet the chain tip (model tip minus `behind`, clipped)
    UpdateTip { behind: u8 },
    /// `truncate_to_chain_state(true chain state at (max scanned or tip) - depth)`: a precise truncation that does not
    /// depend on a retained checkpoint (the wallet inserts the supplied frontiers); `reorg` as for `Truncate`
    TruncateToChainState { depth: u8, reorg: bool },
    /// append one block that mines again (same txid and bytes, new place in the trees) up to `sels.len()` wallet
    /// transactions that an earlier reorganisation removed from the chain; nothing if there is none
    ReMine { sels: Vec<u32> },
    /// the documented start of a sync round: hand the wallet the true roots of every shard (2^16-leaf subtree) of
    /// one pool that the current branch has completed (`put_*_subtree_roots`), then the chain tip
    PutSubtreeRoots { pool: u8 },
    /// scan [from, from+len) where from = base+1 + pick(sel, tip-base)
    Scan { sel: u32, len: u16 },
    /// scan the first unscanned gap from its start or its end, `chunk` blocks
    ScanGap { which: u32, from_end: bool, chunk: u16 },
    /// rewind the wallet to (max scanned or tip) - depth; `reorg` = the chain abandons the blocks
    /// above the height the wallet actually rewound to, else the chain keeps them (forget+rescan)
    Truncate { depth: u8, reorg: bool },
    /// if some wallet transaction is currently orphaned (observed in a block at height h that a rewind
    /// removed), extend the chain with empty blocks and move the wallet's tip to exactly h + 39
    /// (`past` = false: the last tip at which the orphan still counts) or h + 40 (`past` = true: the
    /// first tip at which it has expired)
    ExpiryProbe { which: u32, past: bool },
}

pub fn arb_op(na: u8, nf: u8, iw: bool, long: bool) -> impl Strategy<Value = Op> {
    arb_op_opts(na, nf, iw, long, false)
}

pub fn arb_op_opts(na: u8, nf: u8, iw: bool, long: bool, remine: bool) -> impl Strategy<Value = Op> {
    prop_oneof![
        5 => proptest::collection::vec(arb_block(na, nf, iw, 3, 4), 1..6).prop_map(Op::AddBlocks),
        if long { 3 } else { 1 } => (if long { 1u16..130 } else { 1u16..12 }).prop_map(Op::AddEmpty),
        2 => (0u8..3).prop_map(|behind| Op::UpdateTip { behind }),
        3 => (0u8..3).prop_map(|pool| Op::PutSubtreeRoots { pool }),
        6 => (any::<u32>(), if long { 1u16..160 } else { 1u16..12 }).prop_map(|(sel, len)| Op::Scan { sel, len }),
        5 => (any::<u32>(), any::<bool>(), if long { 1u16..160 } else { 1u16..10 }).prop_map(|(which, from_end, chunk)| Op::ScanGap { which, from_end, chunk }),
        2 => (0u8..8, any::<bool>()).prop_map(|(depth, reorg)| Op::Truncate { depth, reorg }),
        2 => (any::<u32>(), any::<bool>()).prop_map(|(which, past)| Op::ExpiryProbe { which, past }),
        // last, so that shrinking (which moves towards earlier alternatives) never introduces it when its weight is 0
        if remine { 2 } else { 0 } => proptest::collection::vec(any::<u32>(), 1..4).prop_map(|sels| Op::ReMine { sels }),
        // shallow only: a truncation far below the tip runs into the known finding `chain-state-truncation-checkpoint-pruned-at-once` (C06)
        if remine { 1 } else { 0 } => (0u8..10, any::<bool>()).prop_map(|(depth, reorg)| Op::TruncateToChainState { depth, reorg }),
    ]
}

#[derive(Clone, Debug)]
pub struct Case {
    pub world: WorldSpec,
    pub long: bool,
    pub ops: Vec<Op>,
    pub final_chunk: u16,
}

pub fn arb_case(max_ops: usize, p_long: u32) -> impl Strategy<Value = Case> {
    arb_case_opts(max_ops, p_long, false)
}

/// `remine`: histories may mine orphaned wallet transactions again after a reorganisation (`Op::ReMine`, also right
/// after a reorganising rewind).
pub fn arb_case_opts(max_ops: usize, p_long: u32, remine: bool) -> impl Strategy<Value = Case> {
    (arb_world(), prop::bool::weighted(p_long as f64 / 100.0), 1u16..200).prop_flat_map(move |(world, long, final_chunk)| {
        let iw = world.nu6_3_offset.is_some();
        let (na, nf) = (world.n_accounts, world.n_foreign);
        // long mode: receipts, then > 100 empty blocks, then spends, so that the nullifier-tracking floor
        // (batch > 102 blocks extending the fully-scanned frontier) and nullifier pruning at depth 100 engage
        let prefix = if long {
            (
                proptest::collection::vec(arb_block(na, nf, iw, 3, 4), 1..4),
                101u16..150,
                proptest::collection::vec(arb_block(na, nf, iw, 3, 4), 1..4),
                any::<bool>(),
                any::<u8>(),
                0u8..20,
            )
                .prop_map(|(a, n, b, busy, pool_sel, wallet_every)| {
                    let mid = if busy { Op::AddBusy { n, pool_sel, wallet_every } } else { Op::AddEmpty(n) };
                    if wallet_every % 2 == 1 {
                        // second shape: one scanned block at the birthday (so a fully-scanned height exists),
                        // receipts left in a gap, their spends right after, > 100 filler blocks, and ONE batch
                        // from the first spending block to the tip: an out-of-order batch long enough for a
                        // nullifier-tracking floor, whose early nullifiers are needed when the gap is scanned later
                        let (ka, kb) = (a.len() as u64, b.len() as u64);
                        let total = 1 + ka + kb + n as u64;
                        let sel = (((1 + ka) << 32) + total - 1) / total;
                        vec![
                            Op::AddEmpty(1),
                            Op::AddBlocks(a),
                            Op::AddBlocks(b),
                            mid,
                            Op::Scan { sel: 0, len: 1 },
                            Op::Scan { sel: sel as u32, len: (kb + n as u64) as u16 },
                        ]
                    } else {
                        vec![Op::AddBlocks(a), mid, Op::AddBlocks(b)]
                    }
                })
                .boxed()
        } else {
            Just(vec![]).boxed()
        };
        // mostly single ops; sometimes a rewind followed by the two orphan-expiry probes (a scan may come between)
        let chunk = prop_oneof![
            12 => arb_op_opts(na, nf, iw, long, remine).prop_map(|o| vec![o]),
            2 => (0u8..6, any::<bool>(), any::<u32>(), proptest::option::of((any::<u32>(), any::<bool>(), 1u16..8)))
                .prop_map(|(depth, reorg, which, scan)| {
                    let mut v = vec![Op::Truncate { depth, reorg }];
                    v.push(Op::ExpiryProbe { which, past: false });
                    if let Some((w, from_end, chunk)) = scan {
                        v.push(Op::ScanGap { which: w, from_end, chunk });
                    }
                    v.push(Op::ExpiryProbe { which, past: true });
                    v
                }),
            // a reorganisation whose new branch mines some of the removed wallet transactions again
            if remine { 3 } else { 0 } => (1u8..6, proptest::collection::vec(any::<u32>(), 1..4), proptest::option::of(arb_block(na, nf, iw, 2, 3)), (any::<u32>(), any::<bool>(), 1u16..8))
                .prop_map(|(depth, sels, before, (w, from_end, chunk))| {
                    let mut v = vec![Op::Truncate { depth, reorg: true }];
                    if let Some(b) = before {
                        v.push(Op::AddBlocks(vec![b]));
                    }
                    v.push(Op::ReMine { sels });
                    v.push(Op::ScanGap { which: w, from_end, chunk });
                    v
                }),
        ];
        // pools whose tree starts within a few leaves of a shard boundary (see spec::arb_base_size)
        let near: Vec<u8> = world.base.as_ref().map_or(vec![], |b| (0u8..3).filter(|p| b.sizes[*p as usize] % (1 << 16) >= (1 << 16) - 14).collect());
        (prefix, proptest::collection::vec(chunk, 3..max_ops), any::<u32>(), any::<u32>(), 0u8..4).prop_map(move |(mut pre, chunks, at, which, coin)| {
            let mut ops: Vec<Op> = chunks.into_iter().flatten().collect();
            if !near.is_empty() && coin != 0 {
                // make sure the subtree-root hand-over happens somewhere in the second half of such a history
                let pool = near[vcore::pick_index(which, near.len())];
                let lo = ops.len() / 2;
                let pos = lo + vcore::pick_index(at, ops.len() - lo + 1);
                ops.insert(pos, Op::PutSubtreeRoots { pool });
            }
            pre.extend(ops);
            Case { world: world.clone(), long, ops: pre, final_chunk }
        })
    })
}

#[derive(Clone, Debug, Default)]
pub struct Flags {
    pub out_of_order: bool,
    pub repeated: bool,
    pub spend_before_receipt: bool,
    pub rewind_removed_wallet_tx: bool,
    pub big_batch: bool,
    /// a batch > 102 blocks scanned above a gap, revealing (more than 100 blocks below its end) the spend of a
    /// wallet note whose receipt lies in the unscanned gap
    pub early_spend_in_big_out_of_order_batch: bool,
    pub truncate_refused: u32,
    pub truncations: u32,
    pub scans: u32,
    pub expiry_probes: u32,
    pub subtree_roots_put: u32,
    pub remined_txs: u32,
    pub chain_state_truncations: u32,
    pub chain_state_truncations_below_request: u32,
    /// some `truncate_to_chain_state` succeeded while scanned blocks lay above its target (so it rewrote the trees)
    pub chain_state_truncation_cut_trees: bool,
}

/// maximal unscanned ranges [start, end] on the current branch
pub fn gaps(chain: &Chain, ledger: &Ledger) -> Vec<(u32, u32)> {
    let mut out = vec![];
    let mut cur: Option<(u32, u32)> = None;
    for h in chain.base_height + 1..=chain.tip_height() {
        if ledger.is_scanned_height(chain, h) {
            if let Some(g) = cur.take() {
                out.push(g);
            }
        } else {
            cur = Some(match cur {
                None => (h, h),
                Some((s, _)) => (s, h),
            });
        }
    }
    if let Some(g) = cur {
        out.push(g);
    }
    out
}

pub struct Hist {
    pub world: World,
    pub chain: Chain,
    pub w: SimWallet,
    pub ledger: Ledger,
    pub flags: Flags,
    pub max_scanned_start: Option<u32>,
    /// tree sizes [sapling, orchard, ironwood] of every frontier the wallet inserted (= the chain state
    /// before each successfully scanned batch)
    pub frontier_sizes: Vec<[u32; 3]>,
    /// set once a reorganising rewind has cut through a subtree that an earlier frontier insertion had
    /// annotated (the trigger of the known shardtree finding, see known_findings.json / C06)
    pub tainted_stale_annotation: bool,
    /// the wallet is synced the documented way (`put_*_subtree_roots` before every `update_chain_tip`) from the first
    /// `PutSubtreeRoots` operation on
    pub uses_subtree_roots: bool,
    /// (pool, shard index) -> (end height, root) of every subtree root handed to the wallet so far
    pub roots_given: BTreeMap<(usize, u64), (u32, [u8; 32])>,
    /// set once a reorganising rewind has orphaned the block that completed a subtree whose root the wallet had
    /// already been given (the trigger of the known finding `stale-subtree-root-after-reorg`, see C06)
    pub tainted_stale_subtree_root: bool,
}

/// `true` iff truncating a tree to `t` leaves cuts strictly inside one of the ommer subtrees of a
/// frontier that was inserted when the tree had `s` leaves (ommers tile `[0, s-1)` along the binary
/// decomposition of `s-1`, high bits first).
pub fn splits_frontier_ommer(t: u32, s: u32) -> bool {
    if s < 2 || t == 0 {
        return false;
    }
    let q = s - 1;
    if t >= q {
        return false;
    }
    let mut boundary = 0u32;
    for bit in (0..32).rev() {
        if q & (1 << bit) != 0 {
            boundary += 1 << bit;
            if boundary == t {
                return false;
            }
            if boundary > t {
                return true;
            }
        }
    }
    false
}

/// Signature used for the known shardtree stale-annotation finding (see known_findings.json, C06).
pub const SIG_TREE_CONFLICT: &str = "tree-conflict-after-rewind";
/// Signature used for the known finding that `truncate_to_chain_state` keeps tree checkpoints above its target when
/// no scanned block is left above the target after its first phase (see known_findings.json, C06).
pub const SIG_STALE_CHECKPOINT: &str = "chain-state-truncation-keeps-checkpoints";
/// Signature used for the known stale-subtree-root finding (see known_findings.json, C06).
pub const SIG_STALE_SUBTREE_ROOT: &str = "stale-subtree-root-after-reorg";

impl Hist {
    pub fn new(spec: &WorldSpec, file_backed: bool) -> Self {
        let world = World::new(spec);
        let chain = Chain::new(&world);
        let w = SimWallet::new(&world, &chain, file_backed);
        // the birthday frontier (inserted when the accounts are created) counts as an inserted frontier
        let frontier_sizes = if chain.base_sizes == [0, 0, 0] { vec![] } else { vec![chain.base_sizes] };
        Hist { world, chain, w, ledger: Ledger::default(), flags: Flags::default(), max_scanned_start: None, frontier_sizes, tainted_stale_annotation: false, uses_subtree_roots: false, roots_given: BTreeMap::new(), tainted_stale_subtree_root: false }
    }

    /// The known finding (see known_findings.json, C06) whose exact trigger this history has hit, if any: what the
    /// wallet does afterwards is outside what the checks assert.
    pub fn tainted(&self) -> Option<&'static str> {
        if self.tainted_stale_annotation {
            Some("stale-annotation-after-reorg")
        } else if self.tainted_stale_subtree_root {
            Some("stale-subtree-root-after-reorg")
        } else {
            None
        }
    }

    pub fn base(&self) -> u32 {
        self.chain.base_height
    }

    pub fn max_scanned(&self) -> Option<u32> {
        self.ledger.scanned.iter().map(|b| self.chain.blocks[*b].height).max()
    }

    /// Model side of a successful truncation of the wallet to `got` (with or without a reorganisation afterwards).
    fn after_truncate(&mut self, got: u32, reorg: bool) {
        let base = self.base();
        let chain = &self.chain;
        let removed_wallet_tx = self.ledger.scanned.iter().any(|b| {
            let blk = &chain.blocks[*b];
            blk.height > got && blk.txs.iter().any(|t| t.recv.iter().any(|n| matches!(chain.notes[*n].who, Who::Wallet(_))) || t.spends.iter().any(|s| s.note.is_some()))
        });
        if removed_wallet_tx {
            self.flags.rewind_removed_wallet_tx = true;
        }
        self.flags.truncations += 1;
        // a re-mined transaction is not orphaned a second time (its first observation by the wallet would then depend
        // on which of its copies were relevant when scanned): such a rewind keeps the chain
        let reorg = reorg && !self.chain.has_remined_above(got);
        if reorg && got < self.chain.tip_height() {
            let t = self.chain.sizes_at(got.max(base));
            if self.frontier_sizes.iter().any(|s| (0..3).any(|p| splits_frontier_ommer(t[p], s[p]))) {
                self.tainted_stale_annotation = true;
            }
            if self.roots_given.values().any(|(end, _)| *end > got) {
                self.tainted_stale_subtree_root = true;
            }
        }
        self.ledger.truncate(&self.chain, got);
        if reorg {
            self.chain.fork_at(got);
        }
        self.max_scanned_start = self.max_scanned();
    }

    /// One sync-round start as documented in `data_api::chain`: (once the wallet uses subtree roots) the roots of every
    /// shard the chain has completed up to `tip`, for all three pools and always from shard 0 as `sync.rs` does, then
    /// `update_chain_tip(tip)`.
    pub fn announce_tip(&mut self, tip: u32, step: &str) -> Result<(), Fail> {
        if self.uses_subtree_roots {
            for pool in 0..3 {
                let done: Vec<_> = self.chain.complete_shards(pool).into_iter().filter(|s| s.1 <= tip).collect();
                if !done.is_empty() {
                    let stale = self.tainted_stale_subtree_root;
                    let annotation = self.tainted_stale_annotation;
                    self.w.put_subtree_roots(pool, &done).map_err(|e| {
                        // Known findings (C06): a stale root of a subtree whose completing block was reorganised away
                        // makes every later insertion of the new root fail with Conflict; so does the stale cached
                        // hash that shardtree keeps above a truncation point (the root the wallet derived itself by
                        // scanning the abandoned branch).
                        let sig = if stale && e.contains("Conflict") {
                            SIG_STALE_SUBTREE_ROOT
                        } else if annotation && e.contains("Conflict") {
                            SIG_TREE_CONFLICT
                        } else {
                            "put-subtree-roots-failed"
                        };
                        Fail::new(sig, format!("{step}: pool {pool}, shards {:?}: {e}", done.iter().map(|d| (d.0, d.1)).collect::<Vec<_>>()))
                    })?;
                    self.flags.subtree_roots_put += done.len() as u32;
                    for d in &done {
                        self.roots_given.insert((pool, d.0), (d.1, d.2));
                    }
                }
            }
        }
        self.w.update_tip(tip).map_err(|e| Fail::new("update-tip-failed", format!("{step}: {e}")))
    }

    pub fn ensure_tip_known(&mut self, step: &str) -> Result<(), Fail> {
        let tip = self.chain.tip_height();
        if self.w.chain_height().map_or(true, |t| t < tip) {
            self.announce_tip(tip, step)?;
        }
        Ok(())
    }

    /// Scans [from, from+len) (clipped to the tip) and records it in the ledger.
    pub fn scan(&mut self, from: u32, len: u32, step: &str) -> Result<(), Fail> {
        let chain = &self.chain;
        let len = len.min(chain.tip_height() + 1 - from);
        if len == 0 {
            return Ok(());
        }
        if let Some(m) = self.max_scanned_start {
            if from < m {
                self.flags.out_of_order = true;
            }
        }
        self.max_scanned_start = Some(self.max_scanned_start.map_or(from, |m| m.max(from)));
        for h in from..from + len {
            if self.ledger.is_scanned_height(chain, h) {
                self.flags.repeated = true;
            }
            if let Some(b) = chain.block_at(h) {
                for tx in &b.txs {
                    for s in &tx.spends {
                        if let Some(n) = s.note {
                            let note = &chain.notes[n];
                            if matches!(note.who, Who::Wallet(_)) && !self.ledger.scanned.contains(&note.block_id) && !(from..from + len).contains(&note.height) {
                                self.flags.spend_before_receipt = true;
                                if len > 102 && h + 101 < from + len && note.height < from {
                                    self.flags.early_spend_in_big_out_of_order_batch = true;
                                }
                            }
                        }
                    }
                }
            }
        }
        if len > 102 {
            self.flags.big_batch = true;
        }
        self.flags.scans += 1;
        match self.w.scan(&self.world, &self.chain, from, len) {
            Ok(_) => {
                self.ledger.scan(&self.chain, from, len);
                self.frontier_sizes.push(self.chain.sizes_at(from - 1));
                Ok(())
            }
            Err(e) => {
                let m = format!("{e:?}");
                // Known finding (C06): after a rewind below the start of a range that was scanned out of
                // order, shardtree keeps a stale cached parent hash and inserting the new branch's
                // frontier reports a Conflict.
                let sig = if m.contains("PutBlocksCommitmentTree") && m.contains("Conflict") { SIG_TREE_CONFLICT } else { "scan-failed" };
                Err(Fail::new(sig, format!("{step}: scanning [{from}, {}) of a consistent chain failed: {m}", from + len)))
            }
        }
    }

    /// Applies one op to the chain model, the wallet and the ledger.
    pub fn apply(&mut self, op: &Op, step: &str) -> Result<(), Fail> {
        let base = self.base();
        match op {
            Op::AddBlocks(specs) => {
                for s in specs {
                    self.chain.add_block(&self.world, s);
                }
            }
            Op::AddEmpty(n) => {
                for _ in 0..*n {
                    self.chain.add_block(&self.world, &BlockSpec::default());
                }
            }
            Op::AddBusy { n, pool_sel, wallet_every } => {
                for k in 0..*n {
                    let pool = match (*pool_sel as u16 + k) % 3 {
                        0 => Pool::Sapling,
                        1 => Pool::Orchard,
                        _ => Pool::Ironwood,
                    };
                    let who = if *wallet_every > 0 && k % (*wallet_every as u16) == 0 { Who::Wallet(0) } else { Who::Foreign(0) };
                    let spec = BlockSpec { txs: vec![TxSpec { items: vec![ItemSpec::Recv { pool, who, scope: ScopeSel::External, value: 20_000 + k as u64 }] }] };
                    self.chain.add_block(&self.world, &spec);
                }
            }
            Op::UpdateTip { behind } => {
                let tip = self.chain.tip_height();
                if tip > base {
                    // never below what the wallet has scanned (the tip only moves back by truncation)
                    let h = tip.saturating_sub(*behind as u32).max(self.max_scanned().unwrap_or(base)).max(base + 1);
                    self.announce_tip(h, step)?;
                }
            }
            Op::ReMine { sels } => {
                if let Some(bid) = self.chain.add_remine_block(&self.world, sels) {
                    self.flags.remined_txs += self.chain.blocks[bid].txs.len() as u32;
                }
            }
            Op::PutSubtreeRoots { pool: _ } => {
                // from here on the wallet is synced the documented way; start a round right away
                self.uses_subtree_roots = true;
                let tip = self.chain.tip_height();
                if tip > base {
                    self.announce_tip(tip, step)?;
                }
            }
            Op::Scan { sel, len } => {
                let tip = self.chain.tip_height();
                if tip > base {
                    // the documented flow: the wallet knows the tip before it scans
                    self.ensure_tip_known(step)?;
                    let from = base + 1 + vcore::pick_index(*sel, (tip - base) as usize) as u32;
                    self.scan(from, *len as u32, step)?;
                }
            }
            Op::ScanGap { which, from_end, chunk } => {
                let g = gaps(&self.chain, &self.ledger);
                if !g.is_empty() {
                    self.ensure_tip_known(step)?;
                    let (s, e) = g[vcore::pick_index(*which, g.len())];
                    let chunk = (*chunk as u32).min(e - s + 1);
                    let from = if *from_end { e + 1 - chunk } else { s };
                    self.scan(from, chunk, step)?;
                }
            }
            Op::ExpiryProbe { which, past } => {
                let chain = &self.chain;
                let mut hs: Vec<u32> = self
                    .ledger
                    .known_notes
                    .iter()
                    .map(|n| chain.notes[*n].block_id)
                    .chain(self.ledger.links.iter().map(|(_, sb, _)| *sb))
                    .filter(|b| !self.ledger.scanned.contains(b))
                    .map(|b| chain.blocks[b].height)
                    .collect();
                hs.sort();
                hs.dedup();
                if !hs.is_empty() {
                    let h = hs[vcore::pick_index(*which, hs.len())];
                    let target = h + DEFAULT_TX_EXPIRY_DELTA - 1 + *past as u32;
                    if self.w.chain_height().map_or(true, |t| t < target) {
                        while self.chain.tip_height() < target {
                            self.chain.add_block(&self.world, &BlockSpec::default());
                        }
                        self.announce_tip(target, step)?;
                        self.flags.expiry_probes += 1;
                    }
                }
            }
            Op::Truncate { depth, reorg } => {
                let top = self.max_scanned().unwrap_or(self.chain.tip_height()).max(base);
                let h = top.saturating_sub(*depth as u32).max(base);
                let tr = self.w.truncate(h);
                if std::env::var("VERIF_DEBUG").is_ok() {
                    eprintln!("[debug] truncate({h}) -> {tr:?}");
                }
                match tr {
                    Ok(got) => {
                        vensure!(got <= h, "truncate-above-request", "{step}: truncate_to_height({h}) returned {got}");
                        // Known finding (C06, `chain-state-truncation-keeps-checkpoints`): once an earlier
                        // truncate_to_chain_state has left a checkpoint above every scanned block, a later truncation
                        // below it skips the trees as well (no scanned block is removed).
                        let stale_cp = if self.flags.chain_state_truncations > 0 { self.w.max_checkpoint_height().filter(|m| *m > got) } else { None };
                        self.after_truncate(got, *reorg);
                        if let (Some(m), true) = (stale_cp, *reorg) {
                            return Err(Fail::new(
                                SIG_STALE_CHECKPOINT,
                                format!("{step}: truncate_to_height({h}) returned {got} after an earlier truncate_to_chain_state, but the note commitment trees still hold a checkpoint at height {m}"),
                            ));
                        }
                    }
                    Err(_) => {
                        // documented refusals (RequestedRewindInvalid etc.): a no-op for the model
                        self.flags.truncate_refused += 1;
                    }
                }
            }
            Op::TruncateToChainState { depth, reorg } => {
                let top = self.max_scanned().unwrap_or(self.chain.tip_height()).max(base);
                let h = top.saturating_sub(*depth as u32).max(base);
                let trees_cut = self.max_scanned().is_some_and(|m| m > h);
                match self.w.truncate_to_chain_state(self.chain.state_at(h).clone()) {
                    Ok(()) => {
                        if trees_cut {
                            // the wallet inserts the supplied frontiers as a checkpoint at `h`
                            self.frontier_sizes.push(self.chain.sizes_at(h));
                        }
                        self.flags.chain_state_truncations += 1;
                        if trees_cut {
                            self.flags.chain_state_truncation_cut_trees = true;
                        }
                        // The call reports no achieved height. When no retained checkpoint at or below `h` belongs to
                        // a scanned block (sparse checkpoints: long runs of blocks without commitments) the wallet first
                        // drops back to its oldest checkpoint, i.e. below `h`; like a client, the model learns the
                        // achieved height from `block_max_scanned` (counted; DESIGN.md 9.4).
                        let model_max_le_h = self.ledger.scanned.iter().map(|b| self.chain.blocks[*b].height).filter(|x| *x <= h).max();
                        let wallet_max = self.w.block_max_scanned();
                        let dropped = match (model_max_le_h, wallet_max) {
                            (Some(mm), Some(wm)) => wm < mm,
                            (Some(_), None) => true,
                            (None, _) => false,
                        };
                        // the wallet's view of the tip is `h` unless it dropped below the request
                        let got = if dropped { wallet_max.unwrap_or(base).max(base) } else { h };
                        if dropped {
                            self.flags.chain_state_truncations_below_request += 1;
                        }
                        // Known finding (C06): the trees keep checkpoints above the truncation height. It only matters
                        // when the chain above is then replaced; the history stops at this exact trigger.
                        let stale_cp = self.w.max_checkpoint_height().filter(|m| *m > got);
                        self.after_truncate(got, *reorg);
                        if let (Some(m), true) = (stale_cp, *reorg) {
                            return Err(Fail::new(
                                SIG_STALE_CHECKPOINT,
                                format!("{step}: truncate_to_chain_state({h}) returned Ok and the wallet's highest scanned block is now {:?}, but its note commitment trees still hold a checkpoint at height {m}", self.w.block_max_scanned()),
                            ));
                        }
                    }
                    Err(e) => {
                        // the known shardtree finding also makes the frontier insertion fail once its trigger was hit
                        let sig = if self.tainted_stale_annotation && e.contains("Conflict") { SIG_TREE_CONFLICT } else { "truncate-to-chain-state-failed" };
                        return Err(Fail::new(sig, format!("{step}: truncate_to_chain_state({h}) failed: {e}")));
                    }
                }
            }
        }
        if std::env::var("VERIF_DEBUG").is_ok() {
            let sc: Vec<u32> = self.ledger.scanned.iter().map(|b| self.chain.blocks[*b].height).collect();
            eprintln!("[debug] {step}\n        tip={} wallet_tip={:?} scanned={:?} sizes@tip={:?}", self.chain.tip_height(), self.w.chain_height(), sc, self.chain.sizes_at(self.chain.tip_height()));
        }
        Ok(())
    }

    /// Scans every remaining gap in ascending order, `chunk` blocks at a time.
    pub fn scan_all(&mut self, chunk: u16) -> Result<(), Fail> {
        let tip = self.chain.tip_height();
        if tip > self.base() {
            self.announce_tip(tip, "final")?;
            let mut guard = 0;
            loop {
                let g = gaps(&self.chain, &self.ledger);
                let Some((s, e)) = g.first().copied() else { break };
                let c = (chunk.max(1) as u32).min(e - s + 1);
                self.scan(s, c, "final-scan")?;
                guard += 1;
                if guard > 100_000 {
                    return Err(Fail::new("harness-final-loop", "final scan loop did not terminate"));
                }
            }
        }
        Ok(())
    }
}

pub fn step_name(i: usize, op: &Op) -> String {
    let step = format!("op#{i} {op:?}");
    if step.len() > 160 {
        let mut end = 160;
        while !step.is_char_boundary(end) {
            end -= 1;
        }
        format!("{}…", &step[..end])
    } else {
        step
    }
}

//! chainsim: a model chain (block tree with true note-commitment frontiers) plus helpers to drive a
//! real SQLite wallet with it. Shared by the wallet-group checks (C01, C02, C05, C06, C08, C15).
//!
//! The model is independent of the wallet: frontiers are maintained here with
//! `incrementalmerkletree`, notes/nullifiers/positions are recorded at construction time from the
//! note-encryption helpers the repository exposes for tests (`TestFvk`).

pub mod chain;
pub mod history;
pub mod ledger;
pub mod spec;
pub mod wallet;

pub use chain::*;
pub use history::*;
pub use ledger::*;
pub use spec::*;
pub use wallet::*;

/// Disables SQLite's global allocation statistics (one process-wide mutex per malloc/free), which
/// otherwise serialises the workers. Must be called before any connection is opened. Wallet
/// semantics are untouched.
pub fn init_sqlite() {
    static ONCE: std::sync::Once = std::sync::Once::new();
    ONCE.call_once(|| unsafe {
        rusqlite::ffi::sqlite3_config(rusqlite::ffi::SQLITE_CONFIG_MEMSTATUS, 0 as std::os::raw::c_int);
    });
}

//! The model ledger: what the wallet's balances and mined-note rows must be, written from the
//! property text and the documented expiry rule (`tx_unexpired_condition`), not from the SQL.
//!
//! * a note is *known* once a block containing it has been scanned (rows are never deleted);
//! * its receiving transaction is *mined* iff that block is currently scanned (= on the current
//!   branch and not removed by a rewind);
//! * a spend link (note, spending tx) is *known* once the spender's block and the note's block have
//!   both been scanned at the same time, in whichever order;
//! * a transaction that is not mined and whose expiry is unknown (all compact-scanned
//!   transactions) counts as unexpired while `first observed height + 40 >= tip + 1`;
//! * balance(account, pool) = sum of known notes whose receiving tx is unexpired and that have no
//!   known, unexpired spender; `uneconomic` = the part with value <= 5000 (MARGINAL_FEE);
//! * a transaction that a reorganisation removed may be mined again (same txid) at another place: its outputs
//!   are the SAME wallet notes (one row per txid and output index) with a new position, height and (Sapling)
//!   nullifier, so the newly scanned copy supersedes the old one; the transaction is mined iff some copy's
//!   block is currently scanned, and its "first observed height" is the lowest height at which a copy was
//!   scanned while it was relevant to the wallet (`min_observed_height = MIN(..)` in the wallet).

use std::collections::{BTreeMap, BTreeSet};

use crate::chain::*;
use crate::spec::*;

pub const DEFAULT_TX_EXPIRY_DELTA: u32 = 40;
pub const MARGINAL_FEE: u64 = 5000;

#[derive(Clone, Debug, Default)]
pub struct Ledger {
    /// ids of blocks currently scanned (always on the current branch)
    pub scanned: BTreeSet<usize>,
    /// wallet-owned notes whose block has been scanned at some point
    pub known_notes: BTreeSet<usize>,
    /// (note id, spender block id, spender txid)
    pub links: BTreeSet<(usize, usize, [u8; 32])>,
    /// txid -> lowest height at which the transaction was scanned while relevant to the wallet
    pub first_seen: BTreeMap<[u8; 32], u32>,
    /// txid -> blocks in which the transaction has been scanned (several only for re-mined transactions)
    pub tx_blocks: BTreeMap<[u8; 32], BTreeSet<usize>>,
}

#[derive(Clone, Debug, PartialEq, Eq, PartialOrd, Ord)]
pub struct ModelNoteRow {
    pub pool: Pool,
    pub account: u8,
    pub txid: [u8; 32],
    pub out_index: u32,
    pub value: u64,
    pub nf: [u8; 32],
    pub position: u64,
    pub mined_height: u32,
    pub internal: bool,
    pub spent_by_mined: Vec<[u8; 32]>,
}

#[derive(Clone, Copy, Debug, Default, PartialEq, Eq)]
pub struct PoolBalance {
    pub total: u64,
    pub uneconomic: u64,
}

impl Ledger {
    pub fn is_scanned_height(&self, chain: &Chain, h: u32) -> bool {
        chain.block_at(h).map(|b| self.scanned.contains(&b.id)).unwrap_or(false)
    }

    /// Records that heights [from, from+len) of the current branch were scanned.
    pub fn scan(&mut self, chain: &Chain, from: u32, len: u32) {
        for h in from..from + len {
            if let Some(b) = chain.block_at(h) {
                self.scanned.insert(b.id);
                for tx in &b.txs {
                    self.tx_blocks.entry(tx.txid).or_default().insert(b.id);
                    for n in &tx.recv {
                        let note = &chain.notes[*n];
                        if matches!(note.who, Who::Wallet(_)) {
                            // a re-mined copy of a known note supersedes the old copy (same wallet row)
                            let key = (note.txid, note.pool, note.out_index);
                            let older: Vec<usize> =
                                self.known_notes.iter().copied().filter(|k| *k != *n && (chain.notes[*k].txid, chain.notes[*k].pool, chain.notes[*k].out_index) == key).collect();
                            for o in older {
                                self.known_notes.remove(&o);
                                let moved: Vec<(usize, usize, [u8; 32])> = self.links.iter().filter(|l| l.0 == o).copied().collect();
                                for l in moved {
                                    self.links.remove(&l);
                                    self.links.insert((*n, l.1, l.2));
                                }
                            }
                            self.known_notes.insert(*n);
                        }
                    }
                }
            }
        }
        // links: spender and note blocks scanned at the same time
        for bid in &self.scanned {
            let b = &chain.blocks[*bid];
            for tx in &b.txs {
                for s in &tx.spends {
                    if let Some(n) = s.note {
                        let note = &chain.notes[n];
                        if matches!(note.who, Who::Wallet(_)) && self.scanned.contains(&note.block_id) {
                            self.links.insert((n, *bid, tx.txid));
                        }
                    }
                }
            }
        }
        // first observation of every transaction that is scanned and relevant to the wallet right now
        for bid in &self.scanned {
            let b = &chain.blocks[*bid];
            for tx in &b.txs {
                let relevant = tx.recv.iter().any(|n| matches!(chain.notes[*n].who, Who::Wallet(_))) || self.links.iter().any(|(_, sb, t)| sb == bid && *t == tx.txid);
                if relevant {
                    let e = self.first_seen.entry(tx.txid).or_insert(b.height);
                    *e = (*e).min(b.height);
                }
            }
        }
    }

    /// Records a rewind: every block above `height` is no longer scanned.
    pub fn truncate(&mut self, chain: &Chain, height: u32) {
        self.scanned.retain(|b| chain.blocks[*b].height <= height);
    }

    /// `tx_unexpired_condition` for the transaction `txid`, one of whose copies is in block `block_id`: mined (some
    /// copy's block is currently scanned), or first observed at most 40 blocks below the next block.
    fn unexpired(&self, txid: &[u8; 32], block_id: usize, chain: &Chain, tip: u32) -> bool {
        if self.scanned.contains(&block_id) || self.tx_blocks.get(txid).is_some_and(|bs| bs.iter().any(|b| self.scanned.contains(b))) {
            return true;
        }
        let seen = self.first_seen.get(txid).copied().unwrap_or(chain.blocks[block_id].height);
        seen + DEFAULT_TX_EXPIRY_DELTA >= tip + 1
    }

    pub fn note_counts(&self, n: usize, chain: &Chain, tip: u32) -> bool {
        let note = &chain.notes[n];
        if !self.unexpired(&note.txid, note.block_id, chain, tip) {
            return false;
        }
        !self.links.iter().any(|(nn, sb, t)| *nn == n && self.unexpired(t, *sb, chain, tip))
    }

    /// Expected balances per (account index, pool).
    pub fn balances(&self, chain: &Chain, tip: u32) -> BTreeMap<(u8, Pool), PoolBalance> {
        let mut out: BTreeMap<(u8, Pool), PoolBalance> = BTreeMap::new();
        for n in &self.known_notes {
            if self.note_counts(*n, chain, tip) {
                let note = &chain.notes[*n];
                if let Who::Wallet(a) = note.who {
                    let e = out.entry((a, note.pool)).or_default();
                    e.total += note.value;
                    if note.value <= MARGINAL_FEE {
                        e.uneconomic += note.value;
                    }
                }
            }
        }
        out
    }

    /// True iff some known note or known spender is an unexpired orphan (un-mined by a rewind).
    pub fn has_live_orphans(&self, chain: &Chain, tip: u32) -> bool {
        let mined = |txid: &[u8; 32], b: usize| self.scanned.contains(&b) || self.tx_blocks.get(txid).is_some_and(|bs| bs.iter().any(|x| self.scanned.contains(x)));
        self.known_notes.iter().any(|n| {
            let note = &chain.notes[*n];
            !mined(&note.txid, note.block_id) && self.unexpired(&note.txid, note.block_id, chain, tip)
        }) || self.links.iter().any(|(_, sb, t)| !mined(t, *sb) && self.unexpired(t, *sb, chain, tip))
    }

    /// Expected rows for MINED notes (their block is currently scanned).
    pub fn mined_rows(&self, chain: &Chain) -> Vec<ModelNoteRow> {
        let mut rows = vec![];
        for n in &self.known_notes {
            let note = &chain.notes[*n];
            if !self.scanned.contains(&note.block_id) {
                continue;
            }
            let Who::Wallet(a) = note.who else { continue };
            let mut spent: Vec<[u8; 32]> = self
                .links
                .iter()
                .filter(|(nn, sb, _)| nn == n && self.scanned.contains(sb))
                .map(|(_, _, t)| *t)
                .collect();
            spent.sort();
            spent.dedup();
            rows.push(ModelNoteRow {
                pool: note.pool,
                account: a,
                txid: note.txid,
                out_index: note.out_index,
                value: note.value,
                nf: note.nf,
                position: note.position,
                mined_height: note.height,
                internal: matches!(note.scope, ScopeSel::Internal),
                spent_by_mined: spent,
            });
        }
        rows.sort();
        rows
    }
}

//! The model ledger: what the wallet's balances and mined-note rows must be, written from the
//! property text and the documented expiry rule (`tx_unexpired_condition`), not from the SQL.
//!
//! * a note is *known* once a block containing it has been scanned (rows are never deleted);
//! * its receiving transaction is *mined* iff that block is currently scanned (= on the current
//!   branch and not removed by a rewind);
//! * a spend link (note, spending tx) is *known* once the spender's block and the note's block have
//!   both been scanned at the same time, in whichever order;
//! * a transaction that is not mined and whose expiry is unknown (all compact-scanned
//!   transactions) counts as unexpired while `first observed height + 40 >= tip + 1`;
//! * balance(account, pool) = sum of known notes whose receiving tx is unexpired and that have no
//!   known, unexpired spender; `uneconomic` = the part with value <= 5000 (MARGINAL_FEE).

use std::collections::{BTreeMap, BTreeSet};

use crate::chain::*;
use crate::spec::*;

pub const DEFAULT_TX_EXPIRY_DELTA: u32 = 40;
pub const MARGINAL_FEE: u64 = 5000;

#[derive(Clone, Debug, Default)]
pub struct Ledger {
    /// ids of blocks currently scanned (always on the current branch)
    pub scanned: BTreeSet<usize>,
    /// wallet-owned notes whose block has been scanned at some point
    pub known_notes: BTreeSet<usize>,
    /// (note id, spender block id, spender txid)
    pub links: BTreeSet<(usize, usize, [u8; 32])>,
}

#[derive(Clone, Debug, PartialEq, Eq, PartialOrd, Ord)]
pub struct ModelNoteRow {
    pub pool: Pool,
    pub account: u8,
    pub txid: [u8; 32],
    pub out_index: u32,
    pub value: u64,
    pub nf: [u8; 32],
    pub position: u64,
    pub mined_height: u32,
    pub internal: bool,
    pub spent_by_mined: Vec<[u8; 32]>,
}

#[derive(Clone, Copy, Debug, Default, PartialEq, Eq)]
pub struct PoolBalance {
    pub total: u64,
    pub uneconomic: u64,
}

impl Ledger {
    pub fn is_scanned_height(&self, chain: &Chain, h: u32) -> bool {
        chain.block_at(h).map(|b| self.scanned.contains(&b.id)).unwrap_or(false)
    }

    /// Records that heights [from, from+len) of the current branch were scanned.
    pub fn scan(&mut self, chain: &Chain, from: u32, len: u32) {
        let mut new_blocks = vec![];
        for h in from..from + len {
            if let Some(b) = chain.block_at(h) {
                if self.scanned.insert(b.id) {
                    new_blocks.push(b.id);
                }
                for tx in &b.txs {
                    for n in &tx.recv {
                        if matches!(chain.notes[*n].who, Who::Wallet(_)) {
                            self.known_notes.insert(*n);
                        }
                    }
                }
            }
        }
        // links: spender and note blocks scanned at the same time
        for bid in &self.scanned {
            let b = &chain.blocks[*bid];
            for tx in &b.txs {
                for s in &tx.spends {
                    if let Some(n) = s.note {
                        let note = &chain.notes[n];
                        if matches!(note.who, Who::Wallet(_)) && self.scanned.contains(&note.block_id) {
                            self.links.insert((n, *bid, tx.txid));
                        }
                    }
                }
            }
        }
    }

    /// Records a rewind: every block above `height` is no longer scanned.
    pub fn truncate(&mut self, chain: &Chain, height: u32) {
        self.scanned.retain(|b| chain.blocks[*b].height <= height);
    }

    fn unexpired(&self, block_id: usize, chain: &Chain, tip: u32) -> bool {
        self.scanned.contains(&block_id) || chain.blocks[block_id].height + DEFAULT_TX_EXPIRY_DELTA >= tip + 1
    }

    pub fn note_counts(&self, n: usize, chain: &Chain, tip: u32) -> bool {
        let note = &chain.notes[n];
        if !self.unexpired(note.block_id, chain, tip) {
            return false;
        }
        !self.links.iter().any(|(nn, sb, _)| *nn == n && self.unexpired(*sb, chain, tip))
    }

    /// Expected balances per (account index, pool).
    pub fn balances(&self, chain: &Chain, tip: u32) -> BTreeMap<(u8, Pool), PoolBalance> {
        let mut out: BTreeMap<(u8, Pool), PoolBalance> = BTreeMap::new();
        for n in &self.known_notes {
            if self.note_counts(*n, chain, tip) {
                let note = &chain.notes[*n];
                if let Who::Wallet(a) = note.who {
                    let e = out.entry((a, note.pool)).or_default();
                    e.total += note.value;
                    if note.value <= MARGINAL_FEE {
                        e.uneconomic += note.value;
                    }
                }
            }
        }
        out
    }

    /// True iff some known note or known spender is an unexpired orphan (un-mined by a rewind).
    pub fn has_live_orphans(&self, chain: &Chain, tip: u32) -> bool {
        self.known_notes.iter().any(|n| {
            let b = chain.notes[*n].block_id;
            !self.scanned.contains(&b) && self.unexpired(b, chain, tip)
        }) || self.links.iter().any(|(_, sb, _)| !self.scanned.contains(sb) && self.unexpired(*sb, chain, tip))
    }

    /// Expected rows for MINED notes (their block is currently scanned).
    pub fn mined_rows(&self, chain: &Chain) -> Vec<ModelNoteRow> {
        let mut rows = vec![];
        for n in &self.known_notes {
            let note = &chain.notes[*n];
            if !self.scanned.contains(&note.block_id) {
                continue;
            }
            let Who::Wallet(a) = note.who else { continue };
            let mut spent: Vec<[u8; 32]> = self
                .links
                .iter()
                .filter(|(nn, sb, _)| nn == n && self.scanned.contains(sb))
                .map(|(_, _, t)| *t)
                .collect();
            spent.sort();
            spent.dedup();
            rows.push(ModelNoteRow {
                pool: note.pool,
                account: a,
                txid: note.txid,
                out_index: note.out_index,
                value: note.value,
                nf: note.nf,
                position: note.position,
                mined_height: note.height,
                internal: matches!(note.scope, ScopeSel::Internal),
                spent_by_mined: spent,
            });
        }
        rows.sort();
        rows
    }
}

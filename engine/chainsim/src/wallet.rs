//! A real SQLite wallet driven by the model chain.

use std::collections::BTreeMap;

use rand_chacha::ChaChaRng;
use rusqlite::Connection;
use secrecy::SecretVec;
use zcash_client_backend::data_api::{
    chain::{scan_cached_blocks, ScanSummary},
    wallet::ConfirmationsPolicy,
    AccountBirthday, WalletRead, WalletWrite,
};
use zcash_client_backend::data_api::testing::DataStoreFactory;
use zcash_client_sqlite::{
    testing::db::{TestDb, TestDbFactory},
    util::testing::FixedClock,
    AccountUuid, WalletDb,
};
use zcash_protocol::{consensus::BlockHeight, local_consensus::LocalNetwork};

use orchard::tree::MerkleHashOrchard;

use crate::chain::*;
use crate::ledger::*;
use crate::spec::*;

pub type Db = WalletDb<Connection, LocalNetwork, FixedClock, ChaChaRng>;

pub struct SimWallet {
    pub tdb: TestDb,
    pub accounts: Vec<AccountUuid>,
}

#[derive(Debug, Clone)]
pub enum ScanFailure {
    /// chain-continuity error (prev-hash / height discontinuity) at the given height
    Continuity { at_height: u32, msg: String },
    Other(String),
}

#[derive(Clone, Debug, PartialEq, Eq, PartialOrd, Ord)]
pub struct DbNoteRow {
    pub pool: Pool,
    pub account: u8,
    pub txid: [u8; 32],
    pub out_index: u32,
    pub value: u64,
    pub nf: Option<[u8; 32]>,
    pub position: Option<u64>,
    pub mined_height: Option<u32>,
    pub scope: Option<i64>,
    pub spent_by_mined: Vec<[u8; 32]>,
    pub spent_by_unmined: Vec<[u8; 32]>,
}

impl SimWallet {
    /// Creates a migrated wallet with the world's accounts, all born at the chain's base state.
    pub fn new(world: &World, chain: &Chain, file_backed: bool) -> Self {
        let factory = if file_backed { TestDbFactory::file_backed() } else { TestDbFactory::default() };
        let interval = world.spec.retention_interval.map(|n| {
            zcash_client_backend::data_api::anchor_retention::AnchorRetentionInterval::custom(std::num::NonZeroU32::new(n.max(1)).unwrap())
        });
        let mut tdb = factory.new_data_store(world.net, interval, None).expect("new_data_store");
        let birthday = AccountBirthday::from_parts(chain.base_state.clone(), None);
        let seed = SecretVec::new(world.wallet_seed.clone());
        let mut accounts = vec![];
        for i in 0..world.accounts.len() {
            let (id, usk) = tdb.db_mut().create_account(&format!("acct{i}"), &seed, &birthday, None).expect("create_account");
            assert_eq!(
                usk.to_unified_full_viewing_key().encode(&world.net),
                world.accounts[i].ufvk.encode(&world.net),
                "account derivation differs from the model"
            );
            accounts.push(id);
        }
        SimWallet { tdb, accounts }
    }

    pub fn db(&mut self) -> &mut Db {
        self.tdb.db_mut()
    }

    pub fn account_index(&self, id: &AccountUuid) -> Option<u8> {
        self.accounts.iter().position(|a| a == id).map(|i| i as u8)
    }

    /// Scans heights [from, from+len) of the chain's current branch.
    pub fn scan(&mut self, world: &World, chain: &Chain, from: u32, len: u32) -> Result<ScanSummary, ScanFailure> {
        let src = chain.source_range(from, len);
        let from_state = chain.state_at(from - 1).clone();
        match scan_cached_blocks(&world.net, &src, self.tdb.db_mut(), BlockHeight::from_u32(from), &from_state, len as usize) {
            Ok(s) => Ok(s),
            Err(e) => {
                use zcash_client_backend::data_api::chain::error::Error as E;
                match &e {
                    E::Scan(se) if se.is_continuity_error() => Err(ScanFailure::Continuity { at_height: u32::from(se.at_height()), msg: format!("{e:?}") }),
                    _ => Err(ScanFailure::Other(format!("{e:?}"))),
                }
            }
        }
    }

    /// `put_{sapling,orchard,ironwood}_subtree_roots` for consecutive shards `(index, end height, root)` of one pool,
    /// followed by reading each root back through `get_*_subtree_root`.
    pub fn put_subtree_roots(&mut self, pool: usize, shards: &[(u64, u32, [u8; 32])]) -> Result<(), String> {
        use zcash_client_backend::data_api::{chain::CommitmentTreeRoot, WalletCommitmentTrees};
        let start = shards[0].0;
        for (i, s) in shards.iter().enumerate() {
            assert_eq!(s.0, start + i as u64, "completed shards are consecutive");
        }
        let db = self.tdb.db_mut();
        match pool {
            0 => {
                let roots: Vec<_> = shards.iter().map(|(_, h, r)| CommitmentTreeRoot::from_parts(BlockHeight::from_u32(*h), sapling::Node::from_bytes(*r).unwrap())).collect();
                db.put_sapling_subtree_roots(start, &roots).map_err(|e| format!("{e:?}"))?;
                for (idx, _, r) in shards {
                    let got = db.get_sapling_subtree_root(*idx).map_err(|e| format!("{e:?}"))?.map(|n| n.to_bytes());
                    if got != Some(*r) {
                        return Err(format!("get_sapling_subtree_root({idx}) = {:?} right after the root {} was put", got.map(hex::encode), hex::encode(r)));
                    }
                }
            }
            1 => {
                let roots: Vec<_> = shards.iter().map(|(_, h, r)| CommitmentTreeRoot::from_parts(BlockHeight::from_u32(*h), MerkleHashOrchard::from_bytes(r).unwrap())).collect();
                db.put_orchard_subtree_roots(start, &roots).map_err(|e| format!("{e:?}"))?;
                for (idx, _, r) in shards {
                    let got = db.get_orchard_subtree_root(*idx).map_err(|e| format!("{e:?}"))?.map(|n| n.to_bytes());
                    if got != Some(*r) {
                        return Err(format!("get_orchard_subtree_root({idx}) = {:?} right after the root {} was put", got.map(hex::encode), hex::encode(r)));
                    }
                }
            }
            _ => {
                let roots: Vec<_> = shards.iter().map(|(_, h, r)| CommitmentTreeRoot::from_parts(BlockHeight::from_u32(*h), MerkleHashOrchard::from_bytes(r).unwrap())).collect();
                db.put_ironwood_subtree_roots(start, &roots).map_err(|e| format!("{e:?}"))?;
                for (idx, _, r) in shards {
                    let got = db.get_ironwood_subtree_root(*idx).map_err(|e| format!("{e:?}"))?.map(|n| n.to_bytes());
                    if got != Some(*r) {
                        return Err(format!("get_ironwood_subtree_root({idx}) = {:?} right after the root {} was put", got.map(hex::encode), hex::encode(r)));
                    }
                }
            }
        }
        Ok(())
    }

    pub fn update_tip(&mut self, h: u32) -> Result<(), String> {
        self.tdb.db_mut().update_chain_tip(BlockHeight::from_u32(h)).map_err(|e| format!("{e:?}"))
    }

    pub fn truncate(&mut self, h: u32) -> Result<u32, String> {
        self.tdb.db_mut().truncate_to_height(BlockHeight::from_u32(h)).map(u32::from).map_err(|e| format!("{e:?}"))
    }

    pub fn truncate_to_chain_state(&mut self, state: zcash_client_backend::data_api::chain::ChainState) -> Result<(), String> {
        self.tdb.db_mut().truncate_to_chain_state(state).map_err(|e| format!("{e:?}"))
    }

    /// the highest checkpoint id in any of the three note commitment trees
    pub fn max_checkpoint_height(&self) -> Option<u32> {
        let conn = self.conn();
        ["sapling", "orchard", "ironwood"]
            .iter()
            .filter_map(|t| conn.query_row(&format!("SELECT MAX(checkpoint_id) FROM {t}_tree_checkpoints"), [], |r| r.get::<_, Option<u32>>(0)).expect("checkpoint table"))
            .max()
    }

    pub fn block_max_scanned(&self) -> Option<u32> {
        self.tdb.db().block_max_scanned().expect("block_max_scanned").map(|m| u32::from(m.block_height()))
    }

    pub fn chain_height(&self) -> Option<u32> {
        self.tdb.db().chain_height().expect("chain_height").map(u32::from)
    }

    /// `(total, uneconomic)` per (account index, pool), or None when the wallet has no summary.
    pub fn balances(&self) -> Result<Option<BTreeMap<(u8, Pool), PoolBalance>>, String> {
        let s = self.tdb.db().get_wallet_summary(ConfirmationsPolicy::MIN).map_err(|e| format!("{e:?}"))?;
        let Some(s) = s else { return Ok(None) };
        let mut out = BTreeMap::new();
        for (id, ab) in s.account_balances() {
            let Some(a) = self.account_index(id) else { continue };
            for (pool, b) in [(Pool::Sapling, ab.sapling_balance()), (Pool::Orchard, ab.orchard_balance()), (Pool::Ironwood, ab.ironwood_balance())] {
                let total = u64::from(b.total()) + u64::from(b.uneconomic_value());
                if total > 0 {
                    out.insert((a, pool), PoolBalance { total, uneconomic: u64::from(b.uneconomic_value()) });
                }
            }
        }
        Ok(Some(out))
    }

    /// Every received-note row of every pool, joined with its transaction and spends.
    pub fn note_rows(&self) -> Vec<DbNoteRow> {
        note_rows(self.conn(), &self.accounts)
    }

    pub fn conn(&self) -> &Connection {
        self.tdb.conn()
    }
}

pub fn note_rows(conn: &Connection, accounts: &[AccountUuid]) -> Vec<DbNoteRow> {
    let mut rows = vec![];
    for pool in Pool::ALL {
        let p = pool.prefix();
        let idx = pool.output_index_col();
        let mut stmt = conn
            .prepare(&format!(
                "SELECT rn.id, a.uuid, t.txid, rn.{idx}, rn.value, rn.nf, rn.commitment_tree_position, t.mined_height, rn.recipient_key_scope
                 FROM {p}_received_notes rn
                 JOIN accounts a ON a.id = rn.account_id
                 JOIN transactions t ON t.id_tx = rn.transaction_id"
            ))
            .expect("prepare");
        let mut spend_stmt = conn
            .prepare(&format!(
                "SELECT st.txid, st.mined_height FROM {p}_received_note_spends s
                 JOIN transactions st ON st.id_tx = s.transaction_id
                 WHERE s.{p}_received_note_id = ?1"
            ))
            .expect("prepare");
        let it = stmt
            .query_map([], |r| {
                let id: i64 = r.get(0)?;
                let uuid: uuid::Uuid = r.get(1)?;
                let txid: Vec<u8> = r.get(2)?;
                let out_index: i64 = r.get(3)?;
                let value: i64 = r.get(4)?;
                let nf: Option<Vec<u8>> = r.get(5)?;
                let pos: Option<i64> = r.get(6)?;
                let mined: Option<u32> = r.get(7)?;
                let scope: Option<i64> = r.get(8)?;
                Ok((id, uuid, txid, out_index, value, nf, pos, mined, scope))
            })
            .expect("query");
        for row in it {
            let (id, uuid, txid, out_index, value, nf, pos, mined, scope) = row.expect("row");
            let account = accounts.iter().position(|a| a.expose_uuid() == uuid).map(|i| i as u8).unwrap_or(255);
            let mut by_mined = vec![];
            let mut by_unmined = vec![];
            let sp = spend_stmt
                .query_map([id], |r| {
                    let t: Vec<u8> = r.get(0)?;
                    let m: Option<u32> = r.get(1)?;
                    Ok((t, m))
                })
                .expect("q");
            for s in sp {
                let (t, m) = s.expect("row");
                let t: [u8; 32] = t.try_into().expect("txid len");
                if m.is_some() {
                    by_mined.push(t)
                } else {
                    by_unmined.push(t)
                }
            }
            by_mined.sort();
            by_unmined.sort();
            rows.push(DbNoteRow {
                pool,
                account,
                txid: txid.try_into().expect("txid len"),
                out_index: out_index as u32,
                value: value as u64,
                nf: nf.map(|n| n.try_into().expect("nf len")),
                position: pos.map(|p| p as u64),
                mined_height: mined,
                scope,
                spent_by_mined: by_mined,
                spent_by_unmined: by_unmined,
            });
        }
    }
    rows.sort();
    rows
}

/// Canonical dump of every table (from `sqlite_schema`): table -> sorted rendered rows.
pub type Dump = BTreeMap<String, Vec<String>>;

fn render(v: rusqlite::types::ValueRef<'_>) -> String {
    use rusqlite::types::ValueRef::*;
    match v {
        Null => "NULL".to_string(),
        Integer(i) => i.to_string(),
        Real(f) => format!("{f:?}"),
        Text(t) => format!("'{}'", String::from_utf8_lossy(t)),
        Blob(b) => format!("x'{}'", hex::encode(b)),
    }
}

pub fn dump_db(conn: &Connection) -> Dump {
    dump_db_mapped(conn, &|_, _, v| v)
}

/// Like `dump_db`, but every rendered cell goes through `map(table, column, rendered)`.
pub fn dump_db_mapped(conn: &Connection, map: &dyn Fn(&str, &str, String) -> String) -> Dump {
    let mut out = Dump::new();
    let tables: Vec<String> = {
        let mut st = conn.prepare("SELECT name FROM sqlite_schema WHERE type = 'table' AND name NOT LIKE 'sqlite_stat%' ORDER BY name").expect("schema");
        let rows = st.query_map([], |r| r.get::<_, String>(0)).expect("q");
        rows.map(|r| r.expect("row")).collect()
    };
    for t in tables {
        let mut st = match conn.prepare(&format!("SELECT * FROM \"{t}\"")) {
            Ok(s) => s,
            Err(_) => continue, // virtual tables without a module etc.
        };
        let n = st.column_count();
        let names: Vec<String> = (0..n).map(|i| st.column_name(i).unwrap_or("?").to_string()).collect();
        let mut rows: Vec<String> = vec![];
        let mut q = st.query([]).expect("query");
        while let Some(r) = q.next().expect("row") {
            let cols: Vec<String> = (0..n).map(|i| map(&t, &names[i], render(r.get_ref(i).expect("col")))).collect();
            rows.push(cols.join("|"));
        }
        rows.sort();
        out.insert(t, rows);
    }
    out
}

pub fn diff_dump(a: &Dump, b: &Dump) -> String {
    let mut s = String::new();
    for (t, ra) in a {
        let rb = b.get(t).cloned().unwrap_or_default();
        if *ra != rb {
            let sa: std::collections::BTreeSet<_> = ra.iter().collect();
            let sb: std::collections::BTreeSet<_> = rb.iter().collect();
            s.push_str(&format!(
                "[{t}: -{:?} +{:?}] ",
                sa.difference(&sb).take(2).map(|x| x.chars().take(160).collect::<String>()).collect::<Vec<_>>(),
                sb.difference(&sa).take(2).map(|x| x.chars().take(160).collect::<String>()).collect::<Vec<_>>()
            ));
        }
    }
    for t in b.keys() {
        if !a.contains_key(t) {
            s.push_str(&format!("[new table {t}] "));
        }
    }
    if s.len() > 1500 {
        s.truncate(1500);
    }
    s
}

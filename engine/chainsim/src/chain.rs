//! The model chain: keys, a block tree with true frontiers, compact-block construction.

use std::collections::{BTreeMap, BTreeSet};

use incrementalmerkletree::frontier::Frontier;
use orchard::tree::MerkleHashOrchard;
use rand_chacha::ChaCha20Rng;
use rand_core::{RngCore, SeedableRng};
use zcash_client_backend::{
    data_api::{
        chain::{error::Error as ChainError, BlockSource, ChainState},
        testing::{AddressType, IronwoodFvk, TestFvk},
    },
    proto::compact_formats::{ChainMetadata, CompactBlock, CompactSaplingSpend, CompactTx},
};
use zcash_keys::keys::{UnifiedFullViewingKey, UnifiedSpendingKey};
use zcash_primitives::block::BlockHash;
use zcash_protocol::{
    consensus::{BlockHeight, NetworkUpgrade, Parameters},
    local_consensus::LocalNetwork,
    value::Zatoshis,
};
use zip32::{DiversifierIndex, Scope};

use crate::spec::*;

pub const SAPLING_ACTIVATION: u32 = 100_000;

pub type SaplingFrontier = Frontier<sapling::Node, { sapling::NOTE_COMMITMENT_TREE_DEPTH }>;
pub type OrchardFrontier = Frontier<MerkleHashOrchard, { orchard::NOTE_COMMITMENT_TREE_DEPTH as u8 }>;

#[derive(Clone)]
pub struct KeySet {
    pub seed: Vec<u8>,
    pub account_index: u32,
    pub usk: UnifiedSpendingKey,
    pub ufvk: UnifiedFullViewingKey,
    pub sapling: sapling::zip32::DiversifiableFullViewingKey,
    pub orchard: orchard::keys::FullViewingKey,
}

impl KeySet {
    pub fn derive(net: &LocalNetwork, seed: &[u8], account_index: u32) -> Self {
        let usk = UnifiedSpendingKey::from_seed(net, seed, zip32::AccountId::try_from(account_index).unwrap()).expect("usk");
        let ufvk = usk.to_unified_full_viewing_key();
        KeySet {
            seed: seed.to_vec(),
            account_index,
            sapling: ufvk.sapling().expect("sapling fvk").clone(),
            orchard: ufvk.orchard().expect("orchard fvk").clone(),
            usk,
            ufvk,
        }
    }
}

pub fn network(nu6_3_offset: Option<u32>) -> LocalNetwork {
    let h = Some(BlockHeight::from_u32(SAPLING_ACTIVATION));
    LocalNetwork {
        overwinter: Some(BlockHeight::from_u32(1)),
        sapling: h,
        blossom: h,
        heartwood: h,
        canopy: h,
        nu5: h,
        nu6: h,
        nu6_1: h,
        nu6_2: h,
        nu6_3: nu6_3_offset.map(|o| BlockHeight::from_u32(SAPLING_ACTIVATION + o)),
    }
}

#[derive(Clone, Debug)]
pub struct NoteRec {
    pub id: usize,
    pub pool: Pool,
    pub who: Who,
    pub scope: ScopeSel,
    pub value: u64,
    pub nf: [u8; 32],
    pub cm: [u8; 32],
    pub position: u64,
    pub height: u32,
    pub block_id: usize,
    pub txid: [u8; 32],
    pub tx_index: u16,
    /// index among the tx's outputs/actions of this pool
    pub out_index: u32,
}

#[derive(Clone, Debug)]
pub struct SpendRec {
    pub pool: Pool,
    pub nf: [u8; 32],
    /// the model note this reveals the nullifier of, if any
    pub note: Option<usize>,
    /// index among the tx's spends/actions of this pool
    pub index: u32,
}

#[derive(Clone, Debug)]
pub struct TxRec {
    pub txid: [u8; 32],
    pub index: u16,
    pub recv: Vec<usize>,
    pub spends: Vec<SpendRec>,
}

#[derive(Clone)]
pub struct BlockRec {
    pub id: usize,
    pub parent: Option<usize>,
    pub height: u32,
    pub hash: [u8; 32],
    pub prev_hash: [u8; 32],
    pub cb: CompactBlock,
    pub txs: Vec<TxRec>,
    pub state_after: ChainState,
    pub sizes_after: [u32; 3],
    /// every commitment added by this block per pool, in order
    pub commitments: [Vec<[u8; 32]>; 3],
    /// shards (subtrees of 2^16 leaves) completed by this block: (pool index, shard index, root)
    pub completed_shards: Vec<(usize, u64, [u8; 32])>,
}

pub struct World {
    pub spec: WorldSpec,
    pub net: LocalNetwork,
    pub accounts: Vec<KeySet>,
    pub foreign: Vec<KeySet>,
    pub wallet_seed: Vec<u8>,
}

impl World {
    pub fn new(spec: &WorldSpec) -> Self {
        let net = network(spec.nu6_3_offset);
        let wallet_seed: Vec<u8> = spec.seed.to_vec();
        let accounts = (0..spec.n_accounts as u32).map(|i| KeySet::derive(&net, &wallet_seed, i)).collect();
        let mut fseed = spec.seed;
        fseed[0] ^= 0xA5;
        fseed[31] ^= 0x5A;
        let foreign = (0..spec.n_foreign as u32).map(|i| KeySet::derive(&net, &fseed, i)).collect();
        World { spec: spec.clone(), net, accounts, foreign, wallet_seed }
    }
    pub fn keys(&self, who: Who) -> &KeySet {
        match who {
            Who::Wallet(i) => &self.accounts[i as usize % self.accounts.len()],
            Who::Foreign(i) => &self.foreign[i as usize % self.foreign.len().max(1)],
        }
    }
    pub fn ironwood_active(&self, height: u32) -> bool {
        self.net.is_nu_active(NetworkUpgrade::Nu6_3, BlockHeight::from_u32(height))
    }
    pub fn nu6_3_height(&self) -> Option<u32> {
        self.net.activation_height(NetworkUpgrade::Nu6_3).map(u32::from)
    }
}

pub struct Chain {
    pub base_height: u32,
    pub base_state: ChainState,
    /// note commitment tree sizes at `base_height`
    pub base_sizes: [u32; 3],
    /// per pool, the roots of the shards that are already complete at `base_height` (shard 0 first)
    pub base_shard_roots: [Vec<[u8; 32]>; 3],
    /// per pool, the height at which the pool activates
    pub pool_activation: [u32; 3],
    pub blocks: Vec<BlockRec>,
    /// ids of the blocks of the current branch in height order (branch[0] has height base_height+1)
    pub branch: Vec<usize>,
    pub notes: Vec<NoteRec>,
    /// note id -> id of the block on the CURRENT branch that spends it
    pub spent_on_branch: BTreeMap<usize, usize>,
    rng: ChaCha20Rng,
}

fn addr_type(scope: ScopeSel) -> AddressType {
    match scope {
        ScopeSel::External => AddressType::DefaultExternal,
        ScopeSel::Diversified(j) => AddressType::DiversifiedExternal(DiversifierIndex::from(j)),
        ScopeSel::Internal => AddressType::Internal,
    }
}

/// A frontier of a tree holding `size` leaves, together with the roots of every complete shard (2^16-leaf subtree)
/// of that tree. The leaf, the ommers inside the last shard and the roots of the complete shards are arbitrary (valid)
/// nodes; the ommers at and above the shard level are the true combinations of those shard roots, so that the shard
/// roots a chain server would report are consistent with the frontier.
fn fake_frontier<H: Clone + incrementalmerkletree::Hashable, const D: u8>(size: u32, mut node: impl FnMut() -> H) -> (Frontier<H, D>, Vec<H>) {
    use incrementalmerkletree::Level;
    if size == 0 {
        return (Frontier::empty(), vec![]);
    }
    let pos = size as u64 - 1;
    let q = (pos >> 16) as usize;
    let mut shard_roots: Vec<H> = (0..q).map(|_| node()).collect();
    fn span_root<H: Clone + incrementalmerkletree::Hashable>(roots: &[H], a: usize, j: u8) -> H {
        if j == 0 {
            roots[a].clone()
        } else {
            let l = span_root(roots, a, j - 1);
            let r = span_root(roots, a + (1 << (j - 1)), j - 1);
            H::combine(Level::from(16 + j - 1), &l, &r)
        }
    }
    let leaf = node();
    let mut ommers = vec![];
    for level in 0..32u8 {
        if (pos >> level) & 1 == 1 {
            if level < 16 {
                ommers.push(node());
            } else {
                let j = level - 16;
                let idx = ((pos >> level) - 1) as usize;
                ommers.push(span_root(&shard_roots, idx << j, j));
            }
        }
    }
    let f: Frontier<H, D> = Frontier::from_parts(incrementalmerkletree::Position::from(pos), leaf, ommers).expect("consistent frontier parts");
    if size % (1 << 16) == 0 {
        // the last shard is complete as well
        shard_roots.push(f.value().unwrap().root(Some(Level::from(16))));
    }
    (f, shard_roots)
}

impl Chain {
    pub fn new(world: &World) -> Self {
        let mut seed = world.spec.seed;
        seed[7] ^= 0x33;
        let (base_height, base_state, base_sizes, base_shard_roots) = match &world.spec.base {
            None => {
                let h = SAPLING_ACTIVATION - 1;
                (h, ChainState::empty(BlockHeight::from_u32(h), BlockHash([0; 32])), [0, 0, 0], [vec![], vec![], vec![]])
            }
            Some(b) => {
                let h = SAPLING_ACTIVATION - 1 + b.gap.max(1) as u32;
                let mut sizes = b.sizes;
                if !world.ironwood_active(h) {
                    sizes[2] = 0;
                }
                let mut nrng = {
                    let mut s2 = seed;
                    s2[9] ^= 0x77;
                    ChaCha20Rng::from_seed(s2)
                };
                // canonical encodings of both base fields: the top byte cleared keeps the value below the modulus
                let mut node_bytes = || {
                    let mut b = [0u8; 32];
                    nrng.fill_bytes(&mut b);
                    b[31] = 0;
                    b
                };
                let (sap, sr): (SaplingFrontier, _) = fake_frontier(sizes[0], || sapling::Node::from_bytes(node_bytes()).unwrap());
                let (orc, or): (OrchardFrontier, _) = fake_frontier(sizes[1], || MerkleHashOrchard::from_bytes(&node_bytes()).unwrap());
                let (iw, ir): (OrchardFrontier, _) = fake_frontier(sizes[2], || MerkleHashOrchard::from_bytes(&node_bytes()).unwrap());
                let roots = [sr.iter().map(|n| n.to_bytes()).collect(), or.iter().map(|n| n.to_bytes()).collect(), ir.iter().map(|n| n.to_bytes()).collect()];
                (h, ChainState::new(BlockHeight::from_u32(h), BlockHash([0; 32]), sap, orc, iw), sizes, roots)
            }
        };
        Chain {
            base_height,
            base_state,
            base_sizes,
            base_shard_roots,
            pool_activation: [SAPLING_ACTIVATION, SAPLING_ACTIVATION, world.nu6_3_height().unwrap_or(SAPLING_ACTIVATION)],
            blocks: vec![],
            branch: vec![],
            notes: vec![],
            spent_on_branch: BTreeMap::new(),
            rng: ChaCha20Rng::from_seed(seed),
        }
    }

    /// some pool's tree grew across a multiple of 2^16 leaves (a shard boundary) on the current branch
    pub fn crossed_shard_boundary(&self) -> bool {
        let tip = self.sizes_at(self.tip_height());
        (0..3).any(|p| self.base_sizes[p] >> 16 != tip[p] >> 16)
    }

    /// Every shard of `pool` that is complete on the current branch, shard 0 first: (index, height of the block that
    /// completed it, root). Shards below the base get made-up, non-decreasing end heights at or below the base height.
    pub fn complete_shards(&self, pool: usize) -> Vec<(u64, u32, [u8; 32])> {
        let base = &self.base_shard_roots[pool];
        let act = self.pool_activation[pool].min(self.base_height);
        let gap = self.base_height + 1 - act;
        let mut out: Vec<(u64, u32, [u8; 32])> = base.iter().enumerate().map(|(i, r)| (i as u64, act + (i as u32 * gap) / (base.len() as u32 + 1), *r)).collect();
        for id in &self.branch {
            let b = &self.blocks[*id];
            for (p, idx, root) in &b.completed_shards {
                if *p == pool {
                    out.push((*idx, b.height, *root));
                }
            }
        }
        out
    }

    pub fn tip_height(&self) -> u32 {
        self.base_height + self.branch.len() as u32
    }

    pub fn block_at(&self, height: u32) -> Option<&BlockRec> {
        if height <= self.base_height {
            return None;
        }
        self.branch.get((height - self.base_height - 1) as usize).map(|id| &self.blocks[*id])
    }

    /// True chain state at the END of block `height` on the current branch.
    pub fn state_at(&self, height: u32) -> &ChainState {
        if height == self.base_height {
            &self.base_state
        } else {
            &self.block_at(height).expect("height on branch").state_after
        }
    }

    pub fn sizes_at(&self, height: u32) -> [u32; 3] {
        if height == self.base_height {
            self.base_sizes
        } else {
            self.block_at(height).expect("height on branch").sizes_after
        }
    }

    pub fn on_branch(&self, block_id: usize) -> bool {
        let b = &self.blocks[block_id];
        self.block_at(b.height).map(|x| x.id == block_id).unwrap_or(false)
    }

    /// Notes received on the current branch strictly below `height`, not spent on the branch.
    pub fn spend_candidates(&self, height: u32) -> Vec<usize> {
        self.notes
            .iter()
            .filter(|n| n.height < height && self.on_branch(n.block_id) && !self.spent_on_branch.contains_key(&n.id))
            .map(|n| n.id)
            .collect()
    }

    /// Drops every block above `height` from the current branch (they stay in the arena).
    pub fn fork_at(&mut self, height: u32) {
        let keep = (height.max(self.base_height) - self.base_height) as usize;
        if keep < self.branch.len() {
            self.branch.truncate(keep);
            let on: BTreeSet<usize> = self.branch.iter().copied().collect();
            self.spent_on_branch.retain(|_, b| on.contains(b));
        }
    }

    /// Appends a block built from `spec` to the current branch and returns its id.
    pub fn add_block(&mut self, world: &World, spec: &BlockSpec) -> usize {
        self.add_block_inner(world, spec, &[])
    }

    /// Transactions of blocks that a reorganisation removed from the current branch and that could be mined again
    /// on it at `height`: not on the branch (by txid), relevant to the wallet, every note they spend still on the
    /// branch and unspent there, and no Ironwood action if NU6.3 is not active at `height`. (block id, index in block)
    pub fn remine_candidates(&self, world: &World, height: u32) -> Vec<(usize, usize)> {
        let on_branch_txids: BTreeSet<[u8; 32]> = self.branch.iter().flat_map(|b| self.blocks[*b].txs.iter().map(|t| t.txid)).collect();
        let mut seen: BTreeSet<[u8; 32]> = BTreeSet::new();
        let mut out = vec![];
        // latest copies first, so that a transaction that was already re-mined once is taken from its latest copy
        for b in self.blocks.iter().rev() {
            if self.on_branch(b.id) {
                continue;
            }
            for (i, t) in b.txs.iter().enumerate() {
                if on_branch_txids.contains(&t.txid) || !seen.insert(t.txid) {
                    continue;
                }
                let relevant = t.recv.iter().any(|n| matches!(self.notes[*n].who, Who::Wallet(_)))
                    || t.spends.iter().any(|s| s.note.is_some_and(|n| matches!(self.notes[n].who, Who::Wallet(_))));
                let spendable = t.spends.iter().all(|s| match s.note {
                    None => true,
                    Some(n) => {
                        let note = &self.notes[n];
                        note.height < height && self.on_branch(note.block_id) && !self.spent_on_branch.contains_key(&n)
                    }
                });
                let iw_ok = world.ironwood_active(height) || b.cb.vtx[i].ironwood_actions.is_empty();
                if relevant && spendable && iw_ok {
                    out.push((b.id, i));
                }
            }
        }
        out.reverse();
        out
    }

    /// Some block of the current branch above `height` holds a transaction that also exists in a block off the branch
    /// (a re-mined transaction).
    pub fn has_remined_above(&self, height: u32) -> bool {
        let off: BTreeSet<[u8; 32]> = self.blocks.iter().filter(|b| !self.on_branch(b.id)).flat_map(|b| b.txs.iter().map(|t| t.txid)).collect();
        !off.is_empty() && self.branch.iter().any(|b| self.blocks[*b].height > height && self.blocks[*b].txs.iter().any(|t| off.contains(&t.txid)))
    }

    /// Appends a block that mines again, byte for byte (same txid, outputs, actions and nullifiers), up to
    /// `sels.len()` transactions that a reorganisation had removed from the chain. `None` (and no block) if no such
    /// transaction exists.
    pub fn add_remine_block(&mut self, world: &World, sels: &[u32]) -> Option<usize> {
        if sels.is_empty() || self.remine_candidates(world, self.tip_height() + 1).is_empty() {
            return None;
        }
        Some(self.add_block_inner(world, &BlockSpec::default(), sels))
    }

    fn add_block_inner(&mut self, world: &World, spec: &BlockSpec, remine: &[u32]) -> usize {
        let height = self.tip_height() + 1;
        let prev_hash = if height - 1 == self.base_height { [0u8; 32] } else { self.block_at(height - 1).unwrap().hash };
        let prior_state = self.state_at(height - 1).clone();
        let prior_sizes = self.sizes_at(height - 1);
        let id = self.blocks.len();
        let ironwood_ok = world.ironwood_active(height);
        let bh = BlockHeight::from_u32(height);

        let mut sizes = prior_sizes;
        let mut vtx: Vec<CompactTx> = vec![];
        let mut txs: Vec<TxRec> = vec![];
        let mut new_notes: Vec<NoteRec> = vec![];
        let mut candidates = self.spend_candidates(height);
        let mut newly_spent: Vec<usize> = vec![];
        let mut remine_from = if remine.is_empty() { vec![] } else { self.remine_candidates(world, height) };
        let rng = &mut self.rng;

        for (ti, txspec) in spec.txs.iter().enumerate() {
            let mut ctx = CompactTx::default();
            ctx.index = ti as u64;
            let mut txid = [0u8; 32];
            rng.fill_bytes(&mut txid);
            ctx.txid = txid.to_vec();
            let mut rec = TxRec { txid, index: ti as u16, recv: vec![], spends: vec![] };
            let tx_start = sizes;

            // Resolve spends first so that an Orchard/Ironwood spend can be paired with the next
            // receive of the same pool into one logical action.
            let mut pending_spend: [Option<(usize, [u8; 32])>; 3] = [None, None, None];
            let pool_ix = |p: Pool| p as usize;
            let flush_spend = |p: Pool, ctx: &mut CompactTx, rec: &mut TxRec, pend: &mut [Option<(usize, [u8; 32])>; 3], rng: &mut ChaCha20Rng, world: &World| {
                if let Some((note, nf)) = pend[pool_ix(p)].take() {
                    let k = &world.accounts[0];
                    match p {
                        Pool::Sapling => unreachable!(),
                        Pool::Orchard => {
                            let nfo = orchard::note::Nullifier::from_bytes(&nf).unwrap();
                            let idx = ctx.actions.len() as u32;
                            k.orchard.add_spend(ctx, nfo, rng);
                            rec.spends.push(SpendRec { pool: p, nf, note: Some(note).filter(|n| *n != usize::MAX), index: idx });
                        }
                        Pool::Ironwood => {
                            let nfo = orchard::note::Nullifier::from_bytes(&nf).unwrap();
                            let idx = ctx.ironwood_actions.len() as u32;
                            IronwoodFvk(k.orchard.clone()).add_spend(ctx, nfo, rng);
                            rec.spends.push(SpendRec { pool: p, nf, note: Some(note).filter(|n| *n != usize::MAX), index: idx });
                        }
                    }
                }
            };

            for item in &txspec.items {
                match item {
                    ItemSpec::Spend { sel, pool_hint } => {
                        // pick a candidate, preferring the hinted pool
                        let in_pool: Vec<usize> = candidates
                            .iter()
                            .copied()
                            .filter(|c| {
                                let n = self.notes.get(*c).map(|n| n.pool);
                                n == Some(*pool_hint)
                            })
                            .collect();
                        let pool_list = if in_pool.is_empty() { candidates.clone() } else { in_pool };
                        if pool_list.is_empty() {
                            // nothing to spend: reveal an unknown nullifier instead
                            let p = if *pool_hint == Pool::Ironwood && !ironwood_ok { Pool::Orchard } else { *pool_hint };
                            Self::push_unknown_spend(p, &mut ctx, &mut rec, rng, world, &mut pending_spend, &flush_spend);
                            continue;
                        }
                        let nid = pool_list[vcore::pick_index(*sel, pool_list.len())];
                        candidates.retain(|c| *c != nid);
                        newly_spent.push(nid);
                        let n = &self.notes[nid];
                        match n.pool {
                            Pool::Sapling => {
                                let idx = ctx.spends.len() as u32;
                                ctx.spends.push(CompactSaplingSpend { nf: n.nf.to_vec() });
                                rec.spends.push(SpendRec { pool: Pool::Sapling, nf: n.nf, note: Some(nid), index: idx });
                            }
                            p => {
                                flush_spend(p, &mut ctx, &mut rec, &mut pending_spend, rng, world);
                                pending_spend[pool_ix(p)] = Some((nid, n.nf));
                            }
                        }
                    }
                    ItemSpec::SpendUnknown { pool } => {
                        let p = if *pool == Pool::Ironwood && !ironwood_ok { Pool::Orchard } else { *pool };
                        Self::push_unknown_spend(p, &mut ctx, &mut rec, rng, world, &mut pending_spend, &flush_spend);
                    }
                    ItemSpec::Recv { pool, who, scope, value } => {
                        let p = if *pool == Pool::Ironwood && !ironwood_ok { Pool::Orchard } else { *pool };
                        let who = match who {
                            Who::Foreign(_) if world.foreign.is_empty() => Who::Wallet(0),
                            Who::Foreign(i) => Who::Foreign(i % world.foreign.len() as u8),
                            Who::Wallet(i) => Who::Wallet(i % world.accounts.len() as u8),
                        };
                        let keys = world.keys(who);
                        let v = Zatoshis::from_u64(*value).expect("value in range");
                        let at = addr_type(*scope);
                        let (nf, cm, position, out_index): ([u8; 32], [u8; 32], u64, u32) = match p {
                            Pool::Sapling => {
                                let out_index = ctx.outputs.len() as u32;
                                let position = tx_start[0] as u64 + out_index as u64;
                                let nf = keys.sapling.add_output(&mut ctx, &world.net, bh, None, at, v, tx_start[0], rng);
                                let cm: [u8; 32] = ctx.outputs.last().unwrap().cmu.clone().try_into().unwrap();
                                // `TestFvk::add_output` derives the nullifier with the EXTERNAL nullifier key even
                                // for an internal-scope recipient; the true nullifier of an internal note uses the
                                // internal key, so recompute it from the note itself.
                                let nf = if matches!(scope, ScopeSel::Internal) {
                                    let cod = sapling::note_encryption::CompactOutputDescription::try_from(ctx.outputs.last().unwrap()).expect("own output");
                                    let ivk = sapling::keys::PreparedIncomingViewingKey::new(&keys.sapling.to_ivk(Scope::Internal));
                                    let zip212 = zcash_primitives::transaction::components::sapling::zip212_enforcement(&world.net, bh);
                                    let (note, _) = sapling::note_encryption::try_sapling_compact_note_decryption(&ivk, &cod, zip212).expect("internal note decrypts");
                                    note.nf(&keys.sapling.to_nk(Scope::Internal), position)
                                } else {
                                    nf
                                };
                                (nf.0, cm, position, out_index)
                            }
                            Pool::Orchard => {
                                let out_index = ctx.actions.len() as u32;
                                let position = tx_start[1] as u64 + out_index as u64;
                                let nf = if let Some((note, snf)) = pending_spend[1].take() {
                                    let nfo = orchard::note::Nullifier::from_bytes(&snf).unwrap();
                                    rec.spends.push(SpendRec { pool: p, nf: snf, note: Some(note).filter(|n| *n != usize::MAX), index: out_index });
                                    keys.orchard.add_logical_action(&mut ctx, &world.net, bh, nfo, None, at, v, 0, rng)
                                } else {
                                    let nf = keys.orchard.add_output(&mut ctx, &world.net, bh, None, at, v, 0, rng);
                                    // every action reveals a nullifier; an output-only action reveals a dummy one
                                    let dummy: [u8; 32] = ctx.actions.last().unwrap().nullifier.clone().try_into().unwrap();
                                    rec.spends.push(SpendRec { pool: p, nf: dummy, note: None, index: out_index });
                                    nf
                                };
                                let cm: [u8; 32] = ctx.actions.last().unwrap().cmx.clone().try_into().unwrap();
                                (nf.to_bytes(), cm, position, out_index)
                            }
                            Pool::Ironwood => {
                                let out_index = ctx.ironwood_actions.len() as u32;
                                let position = tx_start[2] as u64 + out_index as u64;
                                let fvk = IronwoodFvk(keys.orchard.clone());
                                let nf = if let Some((note, snf)) = pending_spend[2].take() {
                                    let nfo = orchard::note::Nullifier::from_bytes(&snf).unwrap();
                                    rec.spends.push(SpendRec { pool: p, nf: snf, note: Some(note).filter(|n| *n != usize::MAX), index: out_index });
                                    fvk.add_logical_action(&mut ctx, &world.net, bh, nfo, None, at, v, 0, rng)
                                } else {
                                    let nf = fvk.add_output(&mut ctx, &world.net, bh, None, at, v, 0, rng);
                                    let dummy: [u8; 32] = ctx.ironwood_actions.last().unwrap().nullifier.clone().try_into().unwrap();
                                    rec.spends.push(SpendRec { pool: p, nf: dummy, note: None, index: out_index });
                                    nf
                                };
                                let cm: [u8; 32] = ctx.ironwood_actions.last().unwrap().cmx.clone().try_into().unwrap();
                                (nf.to_bytes(), cm, position, out_index)
                            }
                        };
                        let nid = self.notes.len() + new_notes.len();
                        rec.recv.push(nid);
                        new_notes.push(NoteRec {
                            id: nid,
                            pool: p,
                            who,
                            scope: *scope,
                            value: *value,
                            nf,
                            cm,
                            position,
                            height,
                            block_id: id,
                            txid,
                            tx_index: ti as u16,
                            out_index,
                        });
                    }
                }
            }
            flush_spend(Pool::Orchard, &mut ctx, &mut rec, &mut pending_spend, rng, world);
            flush_spend(Pool::Ironwood, &mut ctx, &mut rec, &mut pending_spend, rng, world);

            sizes[0] += ctx.outputs.len() as u32;
            sizes[1] += ctx.actions.len() as u32;
            sizes[2] += ctx.ironwood_actions.len() as u32;
            vtx.push(ctx);
            txs.push(rec);
        }

        // transactions mined again after a reorganisation: the same bytes at a new place in the chain
        for sel in remine {
            if remine_from.is_empty() {
                break;
            }
            let (obid, oti) = remine_from.remove(vcore::pick_index(*sel, remine_from.len()));
            let old = self.blocks[obid].txs[oti].clone();
            // two re-mined transactions must not spend the same note
            if old.spends.iter().any(|s| s.note.is_some_and(|n| newly_spent.contains(&n))) {
                continue;
            }
            let ti = vtx.len();
            let mut ctx = self.blocks[obid].cb.vtx[oti].clone();
            ctx.index = ti as u64;
            let tx_start = sizes;
            let mut rec = TxRec { txid: old.txid, index: ti as u16, recv: vec![], spends: old.spends.clone() };
            for s in &old.spends {
                if let Some(n) = s.note {
                    candidates.retain(|c| *c != n);
                    newly_spent.push(n);
                }
            }
            for on in &old.recv {
                let o = self.notes[*on].clone();
                let position = tx_start[o.pool as usize] as u64 + o.out_index as u64;
                let nf = match (o.pool, o.who) {
                    // a Sapling nullifier depends on the note's position in the tree
                    (Pool::Sapling, who) => {
                        let keys = world.keys(who);
                        let scope = if matches!(o.scope, ScopeSel::Internal) { Scope::Internal } else { Scope::External };
                        let cod = sapling::note_encryption::CompactOutputDescription::try_from(&ctx.outputs[o.out_index as usize]).expect("own output");
                        let ivk = sapling::keys::PreparedIncomingViewingKey::new(&keys.sapling.to_ivk(scope));
                        let zip212 = zcash_primitives::transaction::components::sapling::zip212_enforcement(&world.net, bh);
                        let (note, _) = sapling::note_encryption::try_sapling_compact_note_decryption(&ivk, &cod, zip212).expect("note decrypts under its own key");
                        note.nf(&keys.sapling.to_nk(scope), position).0
                    }
                    _ => o.nf,
                };
                let nid = self.notes.len() + new_notes.len();
                rec.recv.push(nid);
                new_notes.push(NoteRec { id: nid, nf, position, height, block_id: id, tx_index: ti as u16, ..o });
            }
            sizes[0] += ctx.outputs.len() as u32;
            sizes[1] += ctx.actions.len() as u32;
            sizes[2] += ctx.ironwood_actions.len() as u32;
            vtx.push(ctx);
            txs.push(rec);
        }

        // true frontiers + per-pool commitment lists
        let mut sap = prior_state.final_sapling_tree().clone();
        let mut orc = prior_state.final_orchard_tree().clone();
        let mut iw = prior_state.final_ironwood_tree().clone();
        let mut commitments: [Vec<[u8; 32]>; 3] = [vec![], vec![], vec![]];
        let mut completed_shards: Vec<(usize, u64, [u8; 32])> = vec![];
        let shard_level = incrementalmerkletree::Level::from(16);
        for tx in &vtx {
            for o in &tx.outputs {
                let b: [u8; 32] = o.cmu.clone().try_into().unwrap();
                sap.append(sapling::Node::from_cmu(&o.cmu().unwrap()));
                commitments[0].push(b);
                let size = sap.tree_size();
                if size % (1 << 16) == 0 {
                    completed_shards.push((0, size / (1 << 16) - 1, sap.value().unwrap().root(Some(shard_level)).to_bytes()));
                }
            }
            for a in &tx.actions {
                let b: [u8; 32] = a.cmx.clone().try_into().unwrap();
                orc.append(MerkleHashOrchard::from_cmx(&a.cmx().unwrap()));
                commitments[1].push(b);
                let size = orc.tree_size();
                if size % (1 << 16) == 0 {
                    completed_shards.push((1, size / (1 << 16) - 1, orc.value().unwrap().root(Some(shard_level)).to_bytes()));
                }
            }
            for a in &tx.ironwood_actions {
                let b: [u8; 32] = a.cmx.clone().try_into().unwrap();
                iw.append(MerkleHashOrchard::from_cmx(&a.cmx().unwrap()));
                commitments[2].push(b);
                let size = iw.tree_size();
                if size % (1 << 16) == 0 {
                    completed_shards.push((2, size / (1 << 16) - 1, iw.value().unwrap().root(Some(shard_level)).to_bytes()));
                }
            }
        }
        let mut hash = [0u8; 32];
        rng.fill_bytes(&mut hash);
        let cb = CompactBlock {
            height: height as u64,
            hash: hash.to_vec(),
            prev_hash: prev_hash.to_vec(),
            time: 1_700_000_000 + height,
            header: vec![],
            vtx,
            chain_metadata: Some(ChainMetadata {
                sapling_commitment_tree_size: sizes[0],
                orchard_commitment_tree_size: sizes[1],
                ironwood_commitment_tree_size: sizes[2],
            }),
        };
        let state_after = ChainState::new(bh, BlockHash(hash), sap, orc, iw);
        let parent = if height - 1 == self.base_height { None } else { Some(self.block_at(height - 1).unwrap().id) };
        self.blocks.push(BlockRec { id, parent, height, hash, prev_hash, cb, txs, state_after, sizes_after: sizes, commitments, completed_shards });
        self.branch.push(id);
        self.notes.extend(new_notes);
        for n in newly_spent {
            self.spent_on_branch.insert(n, id);
        }
        id
    }

    #[allow(clippy::type_complexity)]
    fn push_unknown_spend(
        p: Pool,
        ctx: &mut CompactTx,
        rec: &mut TxRec,
        rng: &mut ChaCha20Rng,
        world: &World,
        pending: &mut [Option<(usize, [u8; 32])>; 3],
        flush: &dyn Fn(Pool, &mut CompactTx, &mut TxRec, &mut [Option<(usize, [u8; 32])>; 3], &mut ChaCha20Rng, &World),
    ) {
        match p {
            Pool::Sapling => {
                let mut nf = [0u8; 32];
                rng.fill_bytes(&mut nf);
                let idx = ctx.spends.len() as u32;
                ctx.spends.push(CompactSaplingSpend { nf: nf.to_vec() });
                rec.spends.push(SpendRec { pool: p, nf, note: None, index: idx });
            }
            Pool::Orchard | Pool::Ironwood => {
                // a valid (canonical) random nullifier
                let nf = loop {
                    let mut b = [0u8; 32];
                    rng.fill_bytes(&mut b);
                    b[31] &= 0x3f;
                    if Option::<orchard::note::Nullifier>::from(orchard::note::Nullifier::from_bytes(&b)).is_some() {
                        break b;
                    }
                };
                flush(p, ctx, rec, pending, rng, world);
                pending[p as usize] = Some((usize::MAX, nf));
            }
        }
    }
}

/// What `Chain::add_block_with_tx` did.
#[derive(Clone, Debug)]
pub struct MinedTx {
    pub block_id: usize,
    pub height: u32,
    /// model ids of the outputs that decrypt under a wallet account's keys, in output order
    pub notes: Vec<usize>,
    /// model ids of the notes whose nullifiers the transaction reveals
    pub spent: Vec<usize>,
}

impl Chain {
    /// Appends a block whose only transaction is the REAL transaction `tx` (as a light-client server would serve it:
    /// txid, Sapling nullifiers, and cmu / ephemeral key / first 52 ciphertext bytes of every Sapling output; Orchard
    /// and Ironwood actions likewise), with the model bookkeeping of `add_block_inner`: a `NoteRec` for every Sapling
    /// output that decrypts under a wallet account's external or internal incoming viewing key (value, scope,
    /// position = tree size before the transaction + output index, nullifier from the decrypted note at that position),
    /// a `SpendRec` for every revealed nullifier (linked to the model note it belongs to), true frontiers, sizes and
    /// commitment lists. Existing items are untouched; nothing is drawn from the chain's RNG except the block hash.
    ///
    /// `None` (and no block is added) when the transaction could not be mined on the current branch or the model
    /// cannot account for it: a revealed nullifier belongs to a model note that is not on the branch or is already
    /// spent there; it reveals the same nullifier twice; or it carries Orchard / Ironwood actions (their outputs are
    /// not trial-decrypted by the model; no caller builds such transactions yet).
    pub fn add_block_with_tx(&mut self, world: &World, tx: &zcash_primitives::transaction::Transaction) -> Option<MinedTx> {
        use zcash_client_backend::proto::compact_formats::{CompactOrchardAction, CompactSaplingOutput};
        let height = self.tip_height() + 1;
        let bh = BlockHeight::from_u32(height);
        let mut ctx = CompactTx { index: 0, txid: tx.txid().as_ref().to_vec(), ..Default::default() };
        if let Some(b) = tx.sapling_bundle() {
            for s in b.shielded_spends() {
                ctx.spends.push(CompactSaplingSpend::from(s));
            }
            for o in b.shielded_outputs() {
                ctx.outputs.push(CompactSaplingOutput::from(o));
            }
        }
        if let Some(b) = tx.orchard_bundle() {
            for a in b.actions() {
                ctx.actions.push(CompactOrchardAction::from(a));
            }
        }
        if let Some(b) = tx.ironwood_bundle() {
            for a in b.actions() {
                ctx.ironwood_actions.push(CompactOrchardAction::from(a));
            }
        }
        if !ctx.actions.is_empty() || !ctx.ironwood_actions.is_empty() {
            return None;
        }
        let txid: [u8; 32] = *tx.txid().as_ref();
        if self.branch.iter().any(|b| self.blocks[*b].txs.iter().any(|t| t.txid == txid)) {
            // already mined on this branch
            return None;
        }

        // revealed nullifiers -> model notes of the current branch
        let mut spends: Vec<SpendRec> = vec![];
        let mut newly_spent: Vec<usize> = vec![];
        for (i, s) in ctx.spends.iter().enumerate() {
            let nf: [u8; 32] = s.nf.clone().try_into().ok()?;
            let any: Vec<&NoteRec> = self.notes.iter().filter(|n| n.pool == Pool::Sapling && n.nf == nf).collect();
            let note = match any.iter().rev().find(|n| self.on_branch(n.block_id)) {
                Some(n) => {
                    if n.height >= height || self.spent_on_branch.contains_key(&n.id) || newly_spent.contains(&n.id) {
                        return None;
                    }
                    Some(n.id)
                }
                // the note exists only on an abandoned branch: the spend is invalid here
                None if !any.is_empty() => return None,
                None => None,
            };
            if let Some(n) = note {
                newly_spent.push(n);
            }
            spends.push(SpendRec { pool: Pool::Sapling, nf, note, index: i as u32 });
        }

        let prev_hash = if height - 1 == self.base_height { [0u8; 32] } else { self.block_at(height - 1).unwrap().hash };
        let prior_state = self.state_at(height - 1).clone();
        let prior_sizes = self.sizes_at(height - 1);
        let id = self.blocks.len();

        // outputs that belong to the wallet
        let zip212 = zcash_primitives::transaction::components::sapling::zip212_enforcement(&world.net, bh);
        let mut new_notes: Vec<NoteRec> = vec![];
        for (oi, o) in ctx.outputs.iter().enumerate() {
            let cod = sapling::note_encryption::CompactOutputDescription::try_from(o).ok()?;
            let position = prior_sizes[0] as u64 + oi as u64;
            'found: for (ai, keys) in world.accounts.iter().enumerate() {
                for scope in [Scope::External, Scope::Internal] {
                    let ivk = sapling::keys::PreparedIncomingViewingKey::new(&keys.sapling.to_ivk(scope));
                    if let Some((note, _)) = sapling::note_encryption::try_sapling_compact_note_decryption(&ivk, &cod, zip212) {
                        let nid = self.notes.len() + new_notes.len();
                        new_notes.push(NoteRec {
                            id: nid,
                            pool: Pool::Sapling,
                            who: Who::Wallet(ai as u8),
                            scope: if scope == Scope::Internal { ScopeSel::Internal } else { ScopeSel::External },
                            value: note.value().inner(),
                            nf: note.nf(&keys.sapling.to_nk(scope), position).0,
                            cm: o.cmu.clone().try_into().ok()?,
                            position,
                            height,
                            block_id: id,
                            txid,
                            tx_index: 0,
                            out_index: oi as u32,
                        });
                        break 'found;
                    }
                }
            }
        }

        // true frontier + commitment list (Sapling only: there are no Orchard-family actions)
        let mut sap = prior_state.final_sapling_tree().clone();
        let mut commitments: [Vec<[u8; 32]>; 3] = [vec![], vec![], vec![]];
        let mut completed_shards: Vec<(usize, u64, [u8; 32])> = vec![];
        let shard_level = incrementalmerkletree::Level::from(16);
        for o in &ctx.outputs {
            let b: [u8; 32] = o.cmu.clone().try_into().ok()?;
            sap.append(sapling::Node::from_cmu(&o.cmu().ok()?));
            commitments[0].push(b);
            let size = sap.tree_size();
            if size % (1 << 16) == 0 {
                completed_shards.push((0, size / (1 << 16) - 1, sap.value().unwrap().root(Some(shard_level)).to_bytes()));
            }
        }
        let mut sizes = prior_sizes;
        sizes[0] += ctx.outputs.len() as u32;
        let mut hash = [0u8; 32];
        self.rng.fill_bytes(&mut hash);
        let rec = TxRec { txid, index: 0, recv: new_notes.iter().map(|n| n.id).collect(), spends };
        let cb = CompactBlock {
            height: height as u64,
            hash: hash.to_vec(),
            prev_hash: prev_hash.to_vec(),
            time: 1_700_000_000 + height,
            header: vec![],
            vtx: vec![ctx],
            chain_metadata: Some(ChainMetadata {
                sapling_commitment_tree_size: sizes[0],
                orchard_commitment_tree_size: sizes[1],
                ironwood_commitment_tree_size: sizes[2],
            }),
        };
        let state_after = ChainState::new(bh, BlockHash(hash), sap, prior_state.final_orchard_tree().clone(), prior_state.final_ironwood_tree().clone());
        let parent = if height - 1 == self.base_height { None } else { Some(self.block_at(height - 1).unwrap().id) };
        let out = MinedTx { block_id: id, height, notes: rec.recv.clone(), spent: newly_spent.clone() };
        self.blocks.push(BlockRec { id, parent, height, hash, prev_hash, cb, txs: vec![rec], state_after, sizes_after: sizes, commitments, completed_shards });
        self.branch.push(id);
        self.notes.extend(new_notes);
        for n in newly_spent {
            self.spent_on_branch.insert(n, id);
        }
        Some(out)
    }
}

/// A `BlockSource` over an explicit list of compact blocks (cloned out of the model).
pub struct VecBlockSource(pub Vec<CompactBlock>);

impl BlockSource for VecBlockSource {
    type Error = String;

    fn with_blocks<F, WalletErrT>(
        &self,
        from_height: Option<BlockHeight>,
        limit: Option<usize>,
        mut with_block: F,
    ) -> Result<(), ChainError<WalletErrT, Self::Error>>
    where
        F: FnMut(CompactBlock) -> Result<(), ChainError<WalletErrT, Self::Error>>,
    {
        let mut n = 0usize;
        for b in &self.0 {
            if let Some(f) = from_height {
                if b.height < u32::from(f) as u64 {
                    continue;
                }
            }
            if let Some(l) = limit {
                if n >= l {
                    break;
                }
            }
            with_block(b.clone())?;
            n += 1;
        }
        Ok(())
    }
}

impl Chain {
    /// Block source over the current branch.
    pub fn source(&self) -> VecBlockSource {
        VecBlockSource(self.branch.iter().map(|id| self.blocks[*id].cb.clone()).collect())
    }
    /// Block source over heights [from, from+len) of the current branch.
    pub fn source_range(&self, from: u32, len: u32) -> VecBlockSource {
        VecBlockSource((from..from + len).filter_map(|h| self.block_at(h).map(|b| b.cb.clone())).collect())
    }
}

pub fn scope_of(s: ScopeSel) -> Scope {
    match s {
        ScopeSel::Internal => Scope::Internal,
        _ => Scope::External,
    }
}

/// A block source that hands out exactly the given blocks (up to `limit`), whatever height they
/// claim — a server returning a malformed block.
pub struct RawBlockSource(pub Vec<CompactBlock>);

impl BlockSource for RawBlockSource {
    type Error = String;

    fn with_blocks<F, WalletErrT>(
        &self,
        _from_height: Option<BlockHeight>,
        limit: Option<usize>,
        mut with_block: F,
    ) -> Result<(), ChainError<WalletErrT, Self::Error>>
    where
        F: FnMut(CompactBlock) -> Result<(), ChainError<WalletErrT, Self::Error>>,
    {
        for b in self.0.iter().take(limit.unwrap_or(usize::MAX)) {
            with_block(b.clone())?;
        }
        Ok(())
    }
}

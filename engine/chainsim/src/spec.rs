//! Generated descriptions (specs) of worlds, blocks and transactions, and their proptest strategies.

use proptest::prelude::*;
use serde::{Deserialize, Serialize};

#[derive(Clone, Copy, Debug, PartialEq, Eq, PartialOrd, Ord, Hash, Serialize, Deserialize)]
pub enum Pool {
    Sapling,
    Orchard,
    Ironwood,
}

impl Pool {
    pub const ALL: [Pool; 3] = [Pool::Sapling, Pool::Orchard, Pool::Ironwood];
    pub fn prefix(self) -> &'static str {
        match self {
            Pool::Sapling => "sapling",
            Pool::Orchard => "orchard",
            Pool::Ironwood => "ironwood",
        }
    }
    pub fn output_index_col(self) -> &'static str {
        match self {
            Pool::Sapling => "output_index",
            Pool::Orchard | Pool::Ironwood => "action_index",
        }
    }
}

#[derive(Clone, Copy, Debug, PartialEq, Eq, PartialOrd, Ord, Hash, Serialize, Deserialize)]
pub enum Who {
    /// One of the wallet's accounts (index into `World::accounts`).
    Wallet(u8),
    /// A key set the wallet does not hold.
    Foreign(u8),
}

#[derive(Clone, Copy, Debug, PartialEq, Eq, PartialOrd, Ord, Hash, Serialize, Deserialize)]
pub enum ScopeSel {
    External,
    Diversified(u32),
    Internal,
}

#[derive(Clone, Debug, PartialEq, Eq, Serialize, Deserialize)]
pub enum ItemSpec {
    Recv {
        pool: Pool,
        who: Who,
        scope: ScopeSel,
        value: u64,
    },
    /// Spend a note that is unspent on the current branch, chosen by `sel` among candidates
    /// (wallet-owned first). Falls back to a random (unknown) nullifier when there is none.
    Spend { sel: u32, pool_hint: Pool },
    /// Reveal a random nullifier nobody tracks.
    SpendUnknown { pool: Pool },
}

#[derive(Clone, Debug, PartialEq, Eq, Default, Serialize, Deserialize)]
pub struct TxSpec {
    pub items: Vec<ItemSpec>,
}

#[derive(Clone, Debug, PartialEq, Eq, Default, Serialize, Deserialize)]
pub struct BlockSpec {
    pub txs: Vec<TxSpec>,
}

#[derive(Clone, Debug, PartialEq, Eq, Serialize, Deserialize)]
pub struct WorldSpec {
    pub seed: [u8; 32],
    pub n_accounts: u8,
    pub n_foreign: u8,
    /// NU6.3 (Ironwood) activates this many blocks after Sapling/NU5 activation; `None` = never.
    pub nu6_3_offset: Option<u32>,
    /// Anchor retention interval handed to the wallet (`None` = default ZIP 318 = 144).
    pub retention_interval: Option<u32>,
    /// `None`: the model chain (and the wallet birthday) starts right below Sapling activation with empty note
    /// commitment trees. `Some`: it starts `gap` blocks later, on top of trees that already hold `sizes` leaves.
    #[serde(default)]
    pub base: Option<BaseSpec>,
}

/// The state of the chain below the first modelled block: note commitment trees of the given sizes (Sapling, Orchard,
/// Ironwood; the Ironwood size is forced to 0 when NU6.3 is not active at the base height) whose frontiers consist of
/// pseudo-random nodes. Sizes just below / at / above a multiple of 2^16 make the modelled blocks cross a shard boundary.
#[derive(Clone, Debug, PartialEq, Eq, Default, Serialize, Deserialize)]
pub struct BaseSpec {
    pub gap: u8,
    pub sizes: [u32; 3],
}

pub fn arb_base_size() -> impl Strategy<Value = u32> {
    prop_oneof![
        2 => Just(0u32),
        3 => 1u32..300,
        6 => (1u32..14).prop_map(|k| (1 << 16) - k),
        2 => (14u32..80).prop_map(|k| (1 << 16) - k),
        1 => Just(1u32 << 16),
        1 => (1u32..200).prop_map(|k| (1 << 16) + k),
        2 => (1u32..14, 2u32..9).prop_map(|(k, m)| (m << 16) - k),
        1 => 0u32..(1 << 24),
    ]
}

/// Boundary-weighted note values (zatoshis). 5000 = MARGINAL_FEE (the dust split).
pub fn arb_value() -> impl Strategy<Value = u64> {
    prop_oneof![
        1 => Just(0u64),
        1 => Just(1u64),
        1 => Just(4999u64),
        2 => Just(5000u64),
        2 => Just(5001u64),
        1 => Just(10_000u64),
        4 => 5_002u64..2_000_000,
        2 => 1_000_000u64..100_000_000_000,
        1 => Just(2_100_000_000_000_000u64 / 64),
    ]
}

pub fn arb_pool(ironwood: bool) -> BoxedStrategy<Pool> {
    if ironwood {
        prop_oneof![3 => Just(Pool::Sapling), 3 => Just(Pool::Orchard), 3 => Just(Pool::Ironwood)].boxed()
    } else {
        prop_oneof![Just(Pool::Sapling), Just(Pool::Orchard)].boxed()
    }
}

pub fn arb_scope() -> impl Strategy<Value = ScopeSel> {
    prop_oneof![
        4 => Just(ScopeSel::External),
        2 => (1u32..5).prop_map(ScopeSel::Diversified),
        3 => Just(ScopeSel::Internal),
    ]
}

pub fn arb_who(n_accounts: u8, n_foreign: u8) -> BoxedStrategy<Who> {
    let w = (0..n_accounts.max(1)).prop_map(Who::Wallet);
    if n_foreign == 0 {
        w.boxed()
    } else {
        prop_oneof![3 => w, 1 => (0..n_foreign).prop_map(Who::Foreign)].boxed()
    }
}

pub fn arb_item(n_accounts: u8, n_foreign: u8, ironwood: bool) -> impl Strategy<Value = ItemSpec> {
    prop_oneof![
        6 => (arb_pool(ironwood), arb_who(n_accounts, n_foreign), arb_scope(), arb_value())
            .prop_map(|(pool, who, scope, value)| ItemSpec::Recv { pool, who, scope, value }),
        4 => (any::<u32>(), arb_pool(ironwood)).prop_map(|(sel, pool_hint)| ItemSpec::Spend { sel, pool_hint }),
        1 => arb_pool(ironwood).prop_map(|pool| ItemSpec::SpendUnknown { pool }),
    ]
}

pub fn arb_tx(n_accounts: u8, n_foreign: u8, ironwood: bool, max_items: usize) -> impl Strategy<Value = TxSpec> {
    proptest::collection::vec(arb_item(n_accounts, n_foreign, ironwood), 1..=max_items).prop_map(|items| TxSpec { items })
}

/// Mostly-empty blocks (like a real chain seen from one wallet), some busy ones.
pub fn arb_block(n_accounts: u8, n_foreign: u8, ironwood: bool, max_txs: usize, max_items: usize) -> impl Strategy<Value = BlockSpec> {
    prop_oneof![
        5 => Just(BlockSpec::default()),
        5 => proptest::collection::vec(arb_tx(n_accounts, n_foreign, ironwood, max_items), 1..=max_txs).prop_map(|txs| BlockSpec { txs }),
    ]
}

pub fn arb_world() -> impl Strategy<Value = WorldSpec> {
    (
        any::<[u8; 32]>(),
        1u8..=3,
        0u8..=2,
        prop_oneof![2 => Just(None), 3 => (0u32..12).prop_map(Some)],
        prop_oneof![3 => Just(None), 2 => (1u32..12).prop_map(Some)],
        prop_oneof![
            5 => Just(None),
            4 => (1u8..=30, [arb_base_size(), arb_base_size(), arb_base_size()]).prop_map(|(gap, sizes)| Some(BaseSpec { gap, sizes })),
        ],
    )
        .prop_map(|(seed, n_accounts, n_foreign, nu6_3_offset, retention_interval, base)| WorldSpec {
            seed,
            n_accounts,
            n_foreign,
            nu6_3_offset,
            retention_interval,
            base,
        })
}
